"""Generators for reference-server scenarios (harness `ref`): abstract configurations (rendered to a real
ServerConfig by the harness, and carried verbatim into the trace for the TLA+ oracles), regular-expression
ASTs with their pattern text, session scripts and interleavings."""
import json, random, ipaddress

# ---- regular expressions: AST + text --------------------------------------------------------

META = set(b"\\.+*?()|[]{}^$")


def lit(c): return {"t": "lit", "c": c}


def render(a, prec=0):
    """AST -> Go/RE2 pattern text. prec: 0 alt, 1 cat, 2 repeat/atom."""
    t = a["t"]
    if t == "lit":
        c = a["c"]
        s = ("\\" + chr(c)) if c in META else chr(c)
        return s
    if t == "any": return "."
    if t == "bol": return "^"
    if t == "eol": return "$"
    if t == "empty": return "(?:)"
    if t == "class":
        body = "".join(("\\" + chr(c)) if chr(c) in "\\]^-" else chr(c) for c in a["cs"])
        return "[" + ("^" if a["neg"] else "") + body + "]"
    if t == "grp": return "(" + render(a["r"], 0) + ")"
    if t in ("star", "plus", "opt"):
        inner = render(a["r"], 2)
        if a["r"]["t"] in ("cat", "alt", "star", "plus", "opt", "bol", "eol", "empty"):
            inner = "(?:" + render(a["r"], 0) + ")"
        return inner + {"star": "*", "plus": "+", "opt": "?"}[t] + ("?" if a.get("lazy") else "")
    if t == "cat":
        s = render(a["l"], 1) + render(a["r"], 1)
        return "(?:" + s + ")" if prec > 1 else s
    if t == "alt":
        s = render(a["l"], 0) + "|" + render(a["r"], 0)
        return "(?:" + s + ")" if prec > 0 else s
    if t == "invalid": return a["s"]
    raise ValueError(t)


def word(s):
    a = None
    for ch in s.encode():
        n = lit(ch)
        a = n if a is None else {"t": "cat", "l": a, "r": n}
    return a if a is not None else {"t": "empty"}


def rand_ast(rng, depth, alphabet):
    r = rng.random()
    if depth <= 0 or r < 0.3:
        k = rng.random()
        if k < 0.55: return word(rng.choice(alphabet))
        if k < 0.7: return {"t": "any"}
        if k < 0.8: return {"t": "class", "cs": sorted(set(rng.choice(b"abtx 0123456789") for _ in range(rng.randint(1, 3)))), "neg": rng.random() < 0.2}
        if k < 0.88: return {"t": "bol"}
        if k < 0.96: return {"t": "eol"}
        return lit(rng.choice(b"|$^.*"))
    if r < 0.55: return {"t": "cat", "l": rand_ast(rng, depth - 1, alphabet), "r": rand_ast(rng, depth - 1, alphabet)}
    if r < 0.8: return {"t": "alt", "l": rand_ast(rng, depth - 1, alphabet), "r": rand_ast(rng, depth - 1, alphabet)}
    if r < 0.9: return {"t": rng.choice(["star", "plus", "opt"]), "r": rand_ast(rng, depth - 1, alphabet), "lazy": rng.random() < 0.2}
    return {"t": "grp", "r": rand_ast(rng, depth - 1, alphabet)}


def sample(rng, a, depth=0):
    """a string (list of octets) the AST matches as a whole, or None"""
    t = a["t"]
    if t == "lit": return [a["c"]]
    if t == "any": return [rng.choice(b"abtx9 ")]
    if t in ("bol", "eol", "empty"): return []
    if t == "class":
        pool = [c for c in b"abtx 0123456789q" if (c in a["cs"]) != a["neg"]]
        return [rng.choice(pool)] if pool else None
    if t == "grp": return sample(rng, a["r"], depth)
    if t == "cat":
        l, r = sample(rng, a["l"], depth), sample(rng, a["r"], depth)
        return None if l is None or r is None else l + r
    if t == "alt":
        first = rng.random() < 0.5
        x = sample(rng, a["l"] if first else a["r"], depth)
        return x if x is not None else sample(rng, a["r"] if first else a["l"], depth)
    if t in ("star", "plus", "opt"):
        n = {"star": rng.choice([0, 1, 2]), "plus": rng.choice([1, 2]), "opt": rng.choice([0, 1])}[t]
        out = []
        for _ in range(n):
            x = sample(rng, a["r"], depth + 1)
            if x is None:
                return None if t == "plus" else out
            out += x
        return out
    return None


def strip_lazy(a):
    if isinstance(a, dict):
        return {k: strip_lazy(v) for k, v in a.items() if k != "lazy"}
    return a


def pattern(rng, alphabet):
    k = rng.random()
    if k < 0.06:
        s = rng.choice(["(", "a)", "[a", "*a", "a**", "a{2,1}"])
        return {"s": s, "ast": {"t": "invalid", "s": s}}
    if k < 0.3:
        # the shapes that anchoring mistakes confuse: top-level alternations, partial anchors
        w = [word(rng.choice(alphabet)) for _ in range(3)]
        a = rng.choice([
            {"t": "alt", "l": w[0], "r": w[1]},
            {"t": "alt", "l": {"t": "cat", "l": {"t": "bol"}, "r": w[0]}, "r": w[1]},
            {"t": "alt", "l": w[0], "r": {"t": "cat", "l": w[1], "r": {"t": "eol"}}},
            {"t": "alt", "l": {"t": "cat", "l": w[0], "r": {"t": "eol"}}, "r": {"t": "cat", "l": {"t": "bol"}, "r": w[1]}},
            {"t": "alt", "l": w[0], "r": {"t": "cat", "l": w[0], "r": {"t": "cat", "l": lit(32), "r": w[1]}}},   # t|terminal style prefix
            {"t": "cat", "l": w[0], "r": {"t": "star", "r": {"t": "any"}, "lazy": True}},
        ])
    else:
        a = rand_ast(rng, rng.randint(0, 3), alphabet)
    s = render(a)
    if rng.random() < 0.1:
        s = " " + s + " "      # patterns are trimmed
    return {"s": s, "ast": strip_lazy(a)}


# ---- configurations ---------------------------------------------------------------------------

def prefix(s):
    n = ipaddress.ip_network(s, strict=False)
    return {"s": s, "ip": list(n.network_address.packed), "bits": n.prefixlen}


NOAUTH = {"k": "none", "pw": ""}


def auth(pw): return {"k": "bcrypt", "pw": pw}


def user(name, scopes, a=None, acct=False, groups=None, commands=None, services=None):
    return {"name": name, "scopes": scopes, "auth": a or dict(NOAUTH), "acct": acct, "acctk": "file", "groups": groups or [],
            "commands": commands or [], "services": services or []}


def group(name, a=None, acct=False, commands=None, services=None):
    return {"name": name, "auth": a or dict(NOAUTH), "acct": acct, "acctk": "file", "commands": commands or [], "services": services or []}


def secret(name, key, prefixes, nohandler=False):
    return {"name": name, "nameb": name, "key": key, "prefixes": [prefix(p) for p in prefixes], "nohandler": nohandler}


def base_cfg(rng=None, tag=""):
    """Two scopes, users with every authenticator arrangement the property text names."""
    pw = lambda n: "%s-pw-%s" % (n, tag) if tag else "%s-pw" % n
    g1 = group("g1", auth(pw("g1")), acct=True)
    g2 = group("g2", auth(pw("g2")))
    g0 = group("g0")
    users = [
        user("alice", ["s1"], auth(pw("alice")), acct=True),
        user("bob", ["s1"], None, groups=[g0, g1, g2]),                 # inherits from the first group that has one
        user("carol", ["s1"], None),                                     # no authenticator, no accounter
        user("dave", ["s1"], {"k": "badhex", "pw": ""}),
        user("erin", ["s2"], auth(pw("erin")), acct=True),
        user("alice", ["s2"], auth(pw("alice2")), acct=False),           # same name, other scope, other credential
        user("frank", ["s1", "s2"], auth(pw("frank")), acct=True, groups=[g1]),   # own overrides group
        user("gina", ["s1"], {"k": "nohash", "pw": ""}),
        user("hank", ["s1"], {"k": "unknown", "pw": ""}),
        # the first group with an authenticator has no accounter: the group loop goes on to the next group
        user("ivan", ["s1"], None, groups=[group("g3", auth(pw("g3"))), g2, g1]),
        user("judy", ["s1"], None, acct=True, groups=[g0, g2, group("g4", auth(pw("g4")), acct=True)]),
        dict(user("kate", ["s1"], auth(pw("kate")), acct=True), acctk="syslog"),                       # syslog accounter
        user("liam", ["s1"], auth(pw("liam")), groups=[dict(group("g5", None, acct=True), acctk="syslog"), g1]),   # inherited syslog accounter
        dict(user("mona", ["s1"], auth(pw("mona")), acct=True), acctk="stderr"),                    # accounter of a type nobody registered
        user("nick", ["s1"], auth(pw("nick")), groups=[dict(group("g6", None, acct=True), acctk="stderr"), g1]),  # ... inherited
    ]
    return {"secrets": [secret("s1", "key-of-scope-one", ["10.1.0.0/16", "2001:db8:1::/48"]),
                        secret("s2", "key-of-scope-two", ["10.2.0.0/16"])],
            "users": users, "deny": [], "allow": []}


def pw_of(cfg, scope, name):
    """clear password a login of `name` in `scope` must present (None if it cannot pass)"""
    u = None
    for x in cfg["users"]:
        if x["name"] == name and scope in x["scopes"]:
            u = x
    if u is None:
        return None
    a = u["auth"]
    if a["k"] == "none":
        for g in u["groups"]:
            if g["auth"]["k"] != "none":
                a = g["auth"]
                break
    return a["pw"] if a["k"] == "bcrypt" else None


# ---- packets ------------------------------------------------------------------------------------

def start(user_, data="", atype=1, action=1, service=1, priv=1, port="tty0", raddr="192.0.2.9"):
    return {"k": "start", "action": action, "priv": priv, "atype": atype, "service": service, "method": 0, "flags": 0,
            "user": user_, "port": port, "raddr": raddr, "data": data, "msg": "", "args": [], "raw": ""}


def cont(msg, flags=0, data=""):
    return {"k": "cont", "action": 0, "priv": 0, "atype": 0, "service": 0, "method": 0, "flags": flags,
            "user": "", "port": "", "raddr": "", "data": data, "msg": msg, "args": [], "raw": ""}


def author(user_, args, method=6, priv=1, atype=1, service=1, port="tty0", raddr="192.0.2.9"):
    return {"k": "author", "action": 0, "priv": priv, "atype": atype, "service": service, "method": method, "flags": 0,
            "user": user_, "port": port, "raddr": raddr, "data": "", "msg": "", "args": args, "raw": ""}


def acct(user_, flags, args, method=6, priv=1, atype=1, service=1, port="tty0", raddr="192.0.2.9"):
    return {"k": "acct", "action": 0, "priv": priv, "atype": atype, "service": service, "method": method, "flags": flags,
            "user": user_, "port": port, "raddr": raddr, "data": "", "msg": "", "args": args, "raw": ""}


def raw(b):
    return {"k": "raw", "action": 0, "priv": 0, "atype": 0, "service": 0, "method": 0, "flags": 0,
            "user": "", "port": "", "raddr": "", "data": "", "msg": "", "args": [], "raw": list(b)}


def step(c, sid, seq, p, minor=0, fl=1, ty=0, pws=None):
    d = {"c": c, "sid": sid, "seq": seq, "ty": ty, "min": minor, "fl": fl, "p": p, "pws": pws or []}
    if isinstance(p, dict) and p.get("cut"):
        d["cut"] = p["cut"]          # drop octets from the end of the encoded body
    return d


# ---- session scripts: list of (packet, minor, passwords carried) per session ------------------------

def ascii_login(user_, pw, user_in_start=False, stop_after=None, abort_at=None):
    pk = []
    if user_in_start:
        pk.append((start(user_), 0, []))
    else:
        pk.append((start(""), 0, []))
        pk.append((cont(user_), 0, []))
    pk.append((cont(pw), 0, [pw] if pw else []))
    if abort_at is not None and abort_at < len(pk):
        p, m, _ = pk[abort_at]
        if p["k"] == "cont":
            pk[abort_at] = (cont(p["msg"], flags=1), m, [])
            pk = pk[:abort_at + 1]
    if stop_after is not None:
        pk = pk[:stop_after]
    return pk


def pap_login(user_, pw, minor=1):
    return [(start(user_, pw, atype=2), minor, [pw] if pw else [])]


def session_steps(c, sid, script, fl=1, ty=0, seq0=1):
    out, seq = [], seq0
    for p, minor, pws in script:
        out.append(step(c, sid, seq, p, minor, fl, ty, pws))
        seq += 2
    return out


def interleave(rng, sessions):
    """random merge preserving each session's own order"""
    idx = [0] * len(sessions)
    out = []
    left = sum(len(s) for s in sessions)
    while left:
        cand = [i for i, s in enumerate(sessions) if idx[i] < len(s)]
        i = rng.choice(cand)
        out.append(sessions[i][idx[i]])
        idx[i] += 1
        left -= 1
    return out


def all_interleavings(sessions, limit=2000):
    """every merge preserving per-session order (bounded)"""
    res = []

    def rec(idx, acc):
        if len(res) >= limit:
            return
        cand = [i for i, s in enumerate(sessions) if idx[i] < len(s)]
        if not cand:
            res.append(list(acc))
            return
        for i in cand:
            idx[i] += 1
            acc.append(sessions[i][idx[i] - 1])
            rec(idx, acc)
            acc.pop()
            idx[i] -= 1
    rec([0] * len(sessions), [])
    return res
