"""C03: Crypt.tla / MD5.tla (RFC 8907 4.5 pad in plain TLA+). Server direction through harness `chaos`
(Trace_Server tag C03), client direction through harness `client` over loopback TCP (Trace_Client)."""
import json, os, random, re
from vf import *
import server_family as sf

BOUND = [0, 1, 15, 16, 17, 31, 32, 33, 47, 48, 49, 63, 64, 65, 95, 96, 107, 108, 128, 200, 255, 256, 257, 1024]


def cont_body(rng, total):
    """AuthenContinue-shaped clear body of exactly `total` octets (total >= 5)."""
    n = total - 5
    ml = min(n, 65535)
    dl = n - ml
    msg = [rng.choice(b"abcdefghijklmnopqrstuvwxyz") for _ in range(ml)]
    data = [rng.randint(0, 255) for _ in range(dl)]
    return [ml >> 8, ml & 255, dl >> 8, dl & 255, 0] + msg + data


MID = [4095, 4096, 4097, 4111, 4112, 4113, 8191, 8192, 8193, 12289, 16383, 16384, 16385, 20000]


def crypt_scenario(rng, idx, big, mid=None):
    key = [rng.randint(0, 255) for _ in range(rng.choice([0, 1, 6, 13, 16, 51, 70]))]
    if rng.random() < 0.2:
        key = list(b"fooman")
    pk = []
    seq = rng.choice([1, 1, 1, 3, 5, 127, 251, 253])
    for j in range(2 if (big or mid) else rng.randint(1, 2)):
        ty = 1 if (big or mid) else rng.choice([1, 1, 1, 2, 3])
        fl = rng.randint(0, 255)
        fl = (fl & 0xfe) if rng.random() < 0.8 else (fl | 1)
        p = {"sid": rng.randint(0, 3), "seq": seq, "ty": ty, "min": rng.randint(0, 1), "fl": fl, "rd": "ok",
             "ops": ["next", "reply"], "bv": 0}
        if ty == 1:
            total = 65536 if (big and j == 0) else (mid if (mid and j == 0) else max(5, rng.choice(BOUND)))
            p["body"] = cont_body(rng, total)
        p["rsz"] = (65536 if (big and j == 1) else (mid + 1 if (mid and j == 1) else max(6, rng.choice(BOUND))))
        p["rst"] = 3 if ty == 1 else 1
        pk.append(p)
        seq += 2
        if seq > 255:
            break
    for p in pk[1:]:
        p["sid"] = pk[0]["sid"]
    return {"id": "k%d" % idx, "key": key, "pkts": pk}


def collect(ctx, prop):
    quick = ctx.tier == "quick"
    rng = random.Random(ctx.seed * 104729 + 3)
    r0 = ctx.tlc_ok("MC_Crypt", cfg="MC_Crypt.cfg")
    nscen, nbig, ncli = (250, 1, 250) if quick else (4000, 6, 3000)
    scen = [crypt_scenario(rng, i, i < nbig) for i in range(nscen)]
    # bodies and replies of several thousand octets (beyond any plausible internal chunk size), request and reply direction
    mids = rng.sample(MID, 5) if quick else MID * 3
    scen += [crypt_scenario(rng, nscen + i, False, mid=m) for i, m in enumerate(mids)]
    # shared secrets far longer than any buffer someone might think sufficient (own random stream)
    r3 = random.Random("longkeys-%d" % ctx.seed)
    for i, kl in enumerate([120, 122, 123, 124, 127, 128, 129, 200, 255, 256, 1000, 4096][: (12 if quick else 12)]):
        s_ = crypt_scenario(r3, nscen + 100 + i, False)
        s_["key"] = [r3.randint(0, 255) for _ in range(kl)]
        for p_ in s_["pkts"]:
            p_["fl"] &= 0xfe
        scen.append(s_)
    sfile = ctx.path("scen.ndjson")
    with open(sfile, "w") as f:
        for s in scen:
            f.write(json.dumps(s) + "\n")
    tf = ctx.path("trace.ndjson")
    p = ctx.run_harness(["chaos", sfile, tf, str(ctx.seed)])
    st1 = json.loads(p.stdout.strip().splitlines()[-1])
    os.makedirs(ctx.path("chunks"), exist_ok=True)
    chunks = split_trace(tf, NCPU * (1 if quick else 3), ctx.path("chunks"))
    res = validate_chunks(ctx, "Trace_Server", chunks, heap="4g")
    byid = {s["id"]: s for s in scen}
    found, others, divs = [], set(), 0
    for rr in res:
        for line in rr["out"].splitlines():
            if line.startswith('<<"DIV"'):
                divs += 1
            m = sf.PV_RE.match(line)
            if m:
                tags = set(re.findall(r'"(C\d+)"', m.group(1)))
                if prop in tags:
                    found.append({"key": "%s:server:%s" % (prop, m.group(4)), "what": "server direction: %s at event %s of scenario %s" % (prop, m.group(4), m.group(2)),
                                  "replay": {"kind": "chaos", "scenario": byid.get(m.group(2), {}), "seed": ctx.seed}})
                others |= tags - {prop}
    # client direction
    cf_ = ctx.path("client.ndjson")
    p = ctx.run_harness(["client", cf_, str(ctx.seed), str(ncli)], timeout=900)
    st2 = json.loads(p.stdout.strip().splitlines()[-1])
    os.makedirs(ctx.path("cchunks"), exist_ok=True)
    cchunks = split_trace(cf_, NCPU * (1 if quick else 3), ctx.path("cchunks"), marker=None)
    cres = validate_chunks(ctx, "Trace_Client", cchunks, heap="4g")
    cnt = {}
    for rr in cres:
        lines = open(rr["file"]).read().splitlines()
        for m in re.finditer(r'"CNT",\s*\[(.*?)\]', rr["out"], re.S):
            for k, v in re.findall(r'(\w+) \|-> (\d+)', m.group(1)):
                cnt[k] = cnt.get(k, 0) + int(v)
        for line in rr["out"].splitlines():
            m = re.match(r'^<<"PV", \{(.*?)\}, "(.*?)", (\d+), "client">>$', line)
            if m:
                tags = set(re.findall(r'"(C\d+)"', m.group(1)))
                ev = json.loads(lines[int(m.group(3)) - 1])
                if prop in tags:
                    found.append({"key": "%s:client:%s" % (prop, m.group(2)), "what": "client direction: %s at %s" % (prop, m.group(2)),
                                  "replay": {"kind": "client-event", "event": ev}})
                others |= tags - {prop}
    nobf = sum(1 for s in scen for p in s["pkts"] if not p["fl"] & 1)
    cov = {"states": ctx.tlc_distinct, "transitions": ctx.tlc_states,
           "traces_validated_against_impl": len(scen) + st2["events"],
           "evaluations": len(scen) + st2["events"], "distinct_nontrivial": nobf + cnt.get("obf", 0),
           "rule": "server direction: scenarios (random key, boundary body/reply lengths) through the real server; client direction: Client.Send over loopback TCP against a raw peer; non-trivial = packet actually obfuscated (clear flag unset), counted per packet",
           "samples": [dict(scen[-1], pkts=[dict(p, body="%d octets" % len(p.get("body", []))) for p in scen[-1]["pkts"]])],
           "client_counts": cnt, "server_events": st1["events"], "model_divergences": divs,
           "other_property_observations": sorted(others), "exhaustive": False}
    return cov, ["MD5.tla is RFC 1321 transcribed to TLA+ (test suite re-run as ASSUME each time); Crypt.tla is RFC 8907 section 4.5",
                 "input packets are obfuscated by Go crypto/md5 for construction only; every expected octet is recomputed by TLC",
                 "client direction uses loopback TCP (127.0.0.1)"], found


def run(ctx, prop):
    cov, a, found = collect(ctx, prop)
    return conclude(ctx, "model_checking", cov, a, found)


def replay(ctx, prop, obj):
    if obj.get("kind") == "chaos":
        return sf.replay(ctx, prop, obj)
    tf = ctx.path("trace.ndjson")
    with open(tf, "w") as f:
        f.write(json.dumps(obj["event"]) + "\n")
    r = ctx.tlc("Trace_Client", env={"TRACE_FILE": tf})
    hit = False
    for line in r["out"].splitlines():
        if line.startswith('<<"PV"'):
            print(line)
            hit = hit or prop in line
    return 1 if hit else 0
