"""C15: LoaderConc.tla (update/query loop) model-checked; every TLC schedule replayed on the real loader through
gate hooks and judged by Trace_LoaderConc.tla (one complete configuration per lookup; published configurations never
written). Supplementary sensor outside the TLA+ family, stated as such: the harness built with `go build -race` runs a
concurrent workload (clients doing authentication / command + session authorization / accounting, reloads,
shutdown); every race report of the Go runtime touching repository code is a violation."""
import json, os, random, re, subprocess
from vf import *
from refgen import *


def gen_cfgs(tag):
    """two distinguishable configurations: under A the address 10.5.1.1 is served with key kA, under B it is denied
    (and served with kB if only B's providers are consulted)"""
    def users(pw):
        return [user("alice", ["sa", "sb"], auth("alice-" + pw), acct=True,
                     commands=[{"name": "show", "match": [{"s": " version ", "ast": word("version")}, {"s": "ip.*", "ast": {"t": "cat", "l": word("ip"), "r": {"t": "star", "r": {"t": "any"}}}}], "action": 2}],
                     services=[{"name": "shell", "match": [], "set": [{"name": "priv-lvl", "values": ["15"], "opt": False}], "opt": False}])]
    A = {"secrets": [secret("sa", "kA-" + tag, ["10.0.0.0/8"])], "users": users("a"), "deny": [], "allow": []}
    B = {"secrets": [secret("sb", "kB-" + tag, ["10.0.0.0/8"])], "users": users("b"), "deny": [prefix("10.5.0.0/16")], "allow": []}
    C = {"secrets": [secret("sa", "kC-" + tag, ["10.5.0.0/16"]), secret("sb", "kB-" + tag, ["10.0.0.0/8"])], "users": users("c"), "deny": [], "allow": [prefix("10.6.0.0/16")]}
    return A, B, C


def stress_scenario(rng, tag, idx, quick):
    A, B, C = gen_cfgs(tag)
    pw = "alice-a"
    clients = []
    for ci in range(16 if quick else 32):
        steps = []
        if ci % 4 == 0:
            steps += session_steps(1, 0, pap_login("alice", rng.choice([pw, "alice-b", "wrong"])), fl=1)
        # command authorizations first: right after a reload every per-user structure is cold
        for k in range(3):
            steps += session_steps(1, 1, [(author("alice", [list(b"service=shell"), list(b"cmd=show"), list(rng.choice([b"cmd-arg=version", b"cmd-arg=ip", b"cmd-arg=route"]))]), 0, [])], fl=1)
        steps += session_steps(1, 2, [(author("alice", [list(b"service=shell"), list(b"cmd*")]), 0, [])], fl=1)
        steps += session_steps(1, 3, [(acct("alice", 2, [list(b"task_id=1")]), 0, [])], fl=1)
        steps += session_steps(1, 0, ascii_login("alice", pw), fl=1)
        clients.append(steps)
    return {"id": "stress%d" % idx, "cfgs": [A, B, A, C], "clients": clients, "addr": "10.7.1.1", "reloads": 80 if quick else 400, "rounds": 8 if quick else 24, "churn": 150 if quick else 1500}


def collect(ctx, prop):
    quick = ctx.tier == "quick"
    rng = random.Random(ctx.seed * 911 + 15)
    tag = "%x" % rng.getrandbits(20)
    # (a) design check + schedules
    cfg = "MCC.cfg"
    with open(os.path.join(ctx.specdir(), cfg), "w") as f:
        f.write("SPECIFICATION Spec\nCONSTANTS\n  Lookups = %s\n  MaxGen = 3\n  Defects = {}\n  Record = TRUE\nVIEW View\nACTION_CONSTRAINT Emit\nINVARIANTS AtomicLookup CurrentLookup NoSharedRead\nCHECK_DEADLOCK FALSE\n"
                % ("{1, 2}" if quick else "{1, 2, 3}"))
    emit = ctx.path("emit-conc.csv")
    r0 = ctx.tlc_ok("MC_LoaderConc", cfg=cfg, env={"EMIT_FILE": emit}, workers=min(NCPU, 8), heap="8g")
    scheds = emitted_json_lines(emit)
    total = len(scheds)
    if len(scheds) > (800 if quick else 20000):
        rng.shuffle(scheds)
        scheds = scheds[:(800 if quick else 20000)]
    A, B, C = gen_cfgs(tag)
    S = [{"id": "g%d" % i, "gens": [A, B, C], "addrs": ["10.5.1.1", "10.6.2.2", "10.5.255.255"], "steps": s} for i, s in enumerate(scheds)]
    sf = ctx.path("conc.ndjson")
    with open(sf, "w") as f:
        for s in S:
            f.write(json.dumps(s) + "\n")
    tf = ctx.path("trace.ndjson")
    p = ctx.run_harness(["concgate", sf, tf], timeout=2400)
    st = json.loads(p.stdout.strip().splitlines()[-1])
    os.makedirs(ctx.path("chunks"), exist_ok=True)
    res = validate_chunks(ctx, "Trace_LoaderConc", split_trace(tf, NCPU * (1 if quick else 2), ctx.path("chunks")), heap="3g")
    byid = {s["id"]: s for s in S}
    found, cnt, divs = [], {}, 0
    for rr in res:
        for m in re.finditer(r'"CNT",\s*\[(.*?)\]', rr["out"], re.S):
            for k, v in re.findall(r'(\w+) \|-> (\d+)', m.group(1)):
                cnt[k] = cnt.get(k, 0) + int(v)
        for line in rr["out"].splitlines():
            if line.startswith('<<"DIV"'):
                divs += 1
            m = re.match(r'^<<"PV", \{(.*?)\}, "(.*?)", (\d+), "(.*?)">>$', line)
            if m and prop in m.group(1):
                found.append({"key": "%s:gate:%s" % (prop, m.group(4)), "what": "schedule %s: %s" % (m.group(2), m.group(4)),
                              "replay": {"kind": "concgate", "scenario": byid.get(m.group(2), {})}})
    # (c) race sensor
    if prop != "C15":
        # other properties (C16: lookups begun after a reload) only use the gated schedules
        cov = {"states": ctx.tlc_distinct, "transitions": ctx.tlc_states, "traces_validated_against_impl": len(S), "evaluations": len(S),
               "distinct_nontrivial": cnt.get("overlapped", 0),
               "rule": "gate part: one evaluation = one TLC schedule of {build, filters, spawn i, q1 i, q2 i, q3 i} replayed on the real loader (%d of %d schedules), followed by one lookup per address that meets no reload" % (len(S), total),
               "samples": [S[-1]["steps"]], "oracle_counts": cnt, "model_divergences": divs, "events": st["events"], "exhaustive": False}
        return cov, ["the loader's verif gate hooks (l.build, l.q1..q3) park the real goroutines where the schedule says"], found
    stress = [stress_scenario(rng, tag, i, quick) for i in range(2 if quick else 6)]
    ssf = ctx.path("stress.ndjson")
    with open(ssf, "w") as f:
        for s in stress:
            f.write(json.dumps(s) + "\n")
    stf = ctx.path("stress-trace.ndjson")
    pr = ctx.run_harness(["concstress", ssf, stf], race=True, timeout=2400, check=False, env={"GORACE": "halt_on_error=0 exitcode=0 history_size=5"})
    races = parse_races(pr.stderr)
    m = re.search(r"fatal error: concurrent map [a-z ]+|panic: sync: WaitGroup (?:misuse: Add called concurrently with Wait|is reused before previous Wait has returned)|panic: sync: negative WaitGroup counter", pr.stderr)
    if m:
        # the runtime's own detector of unsynchronised map access aborted the process
        frames = re.findall(r'\n\s+(' + re.escape(os.path.realpath(REPO)) + r'/[^\s:]+):(\d+)', pr.stderr)
        races["runtime:" + m.group(0).replace("fatal error: ", "").replace("panic: sync: ", "").replace(":", "").replace(" ", "-") + ":" + "+".join(sorted({os.path.basename(f) for f, _ in frames[:4]}))] = pr.stderr[-3000:]
    if pr.returncode != 0 and not races and os.environ.get("VERIF_DEBUG"):
        open(os.environ["VERIF_DEBUG"], "a").write(pr.stderr[-20000:] + "\n=====\n")
    if pr.returncode != 0 and not races:
        raise Inconclusive("race-instrumented workload failed rc=%d: %s" % (pr.returncode, pr.stderr[-1500:]))
    for key, text in races.items():
        found.append({"key": "%s:race:%s" % (prop, key), "what": "Go race detector: " + key, "replay": {"kind": "race", "report": text[:4000]}})
    for line in open(stf):
        e = json.loads(line)
        if e.get("e") == "immut" and e.get("changed"):
            found.append({"key": "%s:stress:published-written" % prop, "what": "a configuration handed to the loader was modified under load: %s" % e["changed"],
                          "replay": {"kind": "stress", "scenario": stress[0]["id"]}})
    cov = {"states": ctx.tlc_distinct, "transitions": ctx.tlc_states, "traces_validated_against_impl": len(S),
           "evaluations": len(S) + len(stress), "distinct_nontrivial": cnt.get("overlapped", 0),
           "rule": "gate part: one evaluation = one TLC schedule of {build, filters, spawn i, q1 i, q2 i, q3 i} replayed on the real loader (%d of %d schedules); non-trivial = lookups that overlapped a reload (counted by TLC); race part: %d concurrent workloads under the Go race detector" % (len(S), total, len(stress)),
           "samples": [S[-1]["steps"]], "oracle_counts": cnt, "model_divergences": divs, "race_reports": len(races), "events": st["events"], "exhaustive": False}
    return cov, ["atomic-lookup part: the loader's verif gate hooks (l.build, l.q1..q3) park the real goroutines where the schedule says",
                 "data-race part: the Go runtime's happens-before race detector is a supplementary sensor outside the TLA+ family (DESIGN.md C15); it sees every memory location, the model names only the loader's",
                 "races are reported only when a frame of the report lies in the repository sources"], found


def parse_races(stderr):
    out = {}
    for block in stderr.split("WARNING: DATA RACE")[1:]:
        block = block.split("==================")[0]
        frames = re.findall(r'\n\s+(' + re.escape(os.path.realpath(REPO)) + r'/[^\s:]+):(\d+)', block)    # frames in the repository under test
        if not frames:
            continue
        files = sorted({os.path.basename(f) for f, _ in frames[:6]})
        key = "+".join(files[:3])
        out.setdefault(key, "WARNING: DATA RACE" + block)
    return out


def run(ctx, prop):
    cov, a, found = collect(ctx, prop)
    return conclude(ctx, "model_checking", cov, a, found)


def replay(ctx, prop, obj):
    if obj.get("kind") == "concgate":
        sf = ctx.path("conc.ndjson")
        with open(sf, "w") as f:
            f.write(json.dumps(obj["scenario"]) + "\n")
        tf = ctx.path("trace.ndjson")
        ctx.run_harness(["concgate", sf, tf])
        r = ctx.tlc("Trace_LoaderConc", env={"TRACE_FILE": tf})
        hit = False
        for line in r["out"].splitlines():
            if line.startswith('<<"PV"'):
                print(line)
                hit = True
        return 1 if hit else 0
    print(obj.get("report", "re-run the check to reproduce the race workload"))
    return 1
