"""Common machinery for the /verif checks: work dirs, harness build, TLC runs, trace chunking,
parallel trace validation, evidence files, known findings, verdict/exit code."""
import json, os, re, shutil, subprocess, sys, tempfile, time, concurrent.futures as cf

VERIF = os.path.dirname(os.path.dirname(os.path.abspath(__file__)))
REPO = os.environ.get("VERIF_REPO", "/repo")
GOENV = {"GOFLAGS": "-mod=mod", "GOPROXY": "off", "GOSUMDB": "off", "GOTOOLCHAIN": "local"}
NCPU = os.cpu_count() or 4


class Inconclusive(Exception):
    pass


class Ctx:
    def __init__(self, prop, tier, seed):
        self.prop, self.tier, self.seed = prop, tier, seed
        self.t0 = time.time()
        self.work = tempfile.mkdtemp(prefix="vf-%s-" % prop)
        self.tlc_states = 0
        self.tlc_distinct = 0
        self.notes = []
        self._spec = None
        self._vh = None

    def cleanup(self):
        if os.environ.get("VERIF_KEEP"):
            print("kept: " + self.work, file=sys.stderr)
            return
        shutil.rmtree(self.work, ignore_errors=True)

    def path(self, *a):
        return os.path.join(self.work, *a)

    def log(self, *a):
        print("[%s %5.1fs]" % (self.prop, time.time() - self.t0), *a, file=sys.stderr, flush=True)

    # ---- harness -------------------------------------------------------------------
    def harness(self, race=False):
        """Build the harness from /repo's current working tree with the verif tag."""
        key = "vh-race" if race else "vh"
        if getattr(self, "_" + key.replace("-", "_"), None):
            return getattr(self, "_" + key.replace("-", "_"))
        out = self.path(key)
        env = dict(os.environ, **GOENV)
        cmd = ["go", "build", "-tags", "verif"] + (["-race"] if race else [])
        if os.path.realpath(REPO) != "/repo":
            # build against another tree (self-test in a scratch worktree): same module, replace directive redirected
            mf = self.path("alt.mod")
            if not os.path.exists(mf):
                txt = open(os.path.join(VERIF, "harness", "go.mod")).read().replace("=> /repo", "=> " + os.path.realpath(REPO))
                open(mf, "w").write(txt)
                shutil.copy(os.path.join(VERIF, "harness", "go.sum"), self.path("alt.sum"))
            cmd += ["-modfile", mf]
        cmd += ["-o", out, "."]
        p = subprocess.run(cmd, cwd=os.path.join(VERIF, "harness"), env=env, capture_output=True, text=True)
        if p.returncode != 0:
            raise Inconclusive("harness build failed:\n" + p.stdout + p.stderr)
        setattr(self, "_" + key.replace("-", "_"), out)
        return out

    def run_harness(self, args, race=False, timeout=1200, env=None, check=True):
        vh = self.harness(race)
        e = dict(os.environ)
        if env:
            e.update(env)
        p = subprocess.run([vh] + list(args), capture_output=True, text=True, timeout=timeout, env=e)
        if check and p.returncode != 0:
            raise Inconclusive("harness %s failed rc=%d:\n%s\n%s" % (args[0], p.returncode, p.stdout[-2000:], p.stderr[-4000:]))
        return p

    # ---- TLC -----------------------------------------------------------------------
    def specdir(self):
        if not self._spec:
            d = self.path("spec")
            shutil.copytree(os.path.join(VERIF, "spec"), d)
            self._spec = d
        return self._spec

    def tlc(self, module, cfg=None, env=None, workers=1, extra=(), timeout=1800, heap=None, tag=None):
        """Run TLC on module (in the scratch copy of spec/). Returns dict(out, states, distinct, rc)."""
        d = self.specdir()
        meta = tempfile.mkdtemp(prefix="meta-", dir=self.work)
        cmd = [os.path.join(VERIF, "bin", "tlcw")]
        if heap:
            cmd += ["-heap", heap]
        cmd += ["-workers", str(workers), "-metadir", meta, "-noGenerateSpecTE"]
        if cfg:
            cmd += ["-config", cfg]
        cmd += list(extra) + [module]
        e = dict(os.environ)
        if env:
            e.update({k: str(v) for k, v in env.items()})
        try:
            p = subprocess.run(cmd, cwd=d, env=e, capture_output=True, text=True, timeout=timeout)
        except subprocess.TimeoutExpired:
            raise Inconclusive("TLC timeout on %s" % module)
        finally:
            shutil.rmtree(meta, ignore_errors=True)
        out = p.stdout + p.stderr
        m = re.findall(r"(\d+) states generated, (\d+) distinct states found", out)
        st, di = (int(m[-1][0]), int(m[-1][1])) if m else (0, 0)
        return {"out": out, "states": st, "distinct": di, "rc": p.returncode}

    def tlc_ok(self, module, **kw):
        """TLC run that must complete without any error (design checks, oracle evaluation)."""
        r = self.tlc(module, **kw)
        if r["rc"] != 0 or "Error:" in r["out"]:
            raise Inconclusive("TLC reported an error on %s:\n%s" % (module, tail(r["out"], 60)))
        self.tlc_states += r["states"]
        self.tlc_distinct += r["distinct"]
        return r


def tail(s, n):
    return "\n".join(s.splitlines()[-n:])


# ---- TLC output values ----------------------------------------------------------------
def parse_tla_tuple_lines(out, head):
    """Lines printed with PrintT(<<"HEAD", ...>>) -> list of raw strings after the head."""
    res = []
    pat = '<<"%s", ' % head
    for line in out.splitlines():
        if line.startswith(pat):
            res.append(line[len(pat):].rstrip(">").rstrip())
    return res


def emitted_json_lines(path):
    """CSVWrite("%1$s", <<ToJson(x)>>) lines: a JSON string containing JSON."""
    out = []
    if not os.path.exists(path):
        return out
    with open(path) as f:
        for line in f:
            line = line.strip()
            if not line:
                continue
            v = json.loads(line)
            if isinstance(v, str):
                v = json.loads(v)
            out.append(v)
    return out


def drop_partial_tail(path):
    """A recorder whose process died may leave an incomplete last line: keep the complete lines only."""
    if not os.path.exists(path):
        open(path, "w").close()
        return 0
    keep, dropped = [], 0
    with open(path, "rb") as f:
        data = f.read()
    lines = data.split(b"\n")
    for i, ln in enumerate(lines):
        if not ln.strip():
            continue
        try:
            json.loads(ln)
            keep.append(ln)
        except Exception:
            dropped += 1
    if dropped:
        with open(path, "wb") as f:
            f.write(b"\n".join(keep) + b"\n")
    return dropped


# ---- trace chunking + parallel validation ---------------------------------------------
def split_trace(path, nchunks, outdir, marker='"e":"reset"'):
    """Split an ndjson trace into <= nchunks files at scenario ("reset") boundaries."""
    with open(path) as f:
        lines = f.readlines()
    if marker is None:
        starts = list(range(len(lines)))
    else:
        starts = [i for i, l in enumerate(lines) if marker in l]
    if not starts:
        starts = [0]
    if starts[0] != 0:
        starts = [0] + starts
    n = len(starts)
    nchunks = max(1, min(nchunks, n))
    per = (n + nchunks - 1) // nchunks
    files = []
    for c in range(nchunks):
        a = c * per
        if a >= n:
            break
        b = min(n, (c + 1) * per)
        lo = starts[a]
        hi = starts[b] if b < n else len(lines)
        fn = os.path.join(outdir, "chunk%03d.ndjson" % c)
        with open(fn, "w") as g:
            g.writelines(lines[lo:hi])
        files.append((fn, hi - lo))
    return files


def validate_chunks(ctx, module, chunks, env=None, cfg=None, timeout=1800, heap="3g"):
    """Run the trace spec on every chunk in parallel. Returns list of dict(file, out, states, complete)."""
    res = []
    ctx.specdir()   # create the scratch copy before the worker threads race for it

    def one(ch):
        fn, n = ch
        e = dict(env or {})
        e["TRACE_FILE"] = fn
        e["VERIF_TLC_GCT"] = "2"      # many single-worker JVMs side by side: keep their GC pools small
        r = ctx.tlc(module, cfg=cfg, env=e, workers=1, timeout=timeout, heap=heap)
        r["file"], r["events"] = fn, n
        return r

    with cf.ThreadPoolExecutor(max_workers=min(NCPU, max(1, len(chunks)))) as ex:
        for r in ex.map(one, chunks):
            res.append(r)
    for r in res:
        bad = [l for l in r["out"].splitlines() if l.startswith("Error:") and "Postcondition" not in l]
        if r["rc"] != 0 or bad or '<<"SHORT"' in r["out"]:
            raise Inconclusive("trace validation did not complete on %s:\n%s" % (r["file"], tail(r["out"], 40)))
        ctx.tlc_states += r["states"]
        ctx.tlc_distinct += r["distinct"]
    return res


# ---- known findings -------------------------------------------------------------------
def known_findings():
    p = os.path.join(VERIF, "known_findings.json")
    if not os.path.exists(p):
        return []
    return json.load(open(p)).get("findings", [])


def open_keys(prop):
    return {f["key"]: f for f in known_findings() if f["property"] == prop and f.get("status") == "open"}


# ---- evidence + verdict ---------------------------------------------------------------
def evidence_dir():
    # runs against another tree (self-test worktrees) must not overwrite the evidence of the real tree
    if os.path.realpath(REPO) != "/repo":
        d = os.path.join(tempfile.gettempdir(), "vf-selftest-evidence")
        os.makedirs(d, exist_ok=True)
        return d
    return os.path.join(VERIF, "evidence")


def write_evidence(ctx, level, coverage, assumptions, violations):
    os.makedirs(evidence_dir(), exist_ok=True)
    ev = {"property_id": ctx.prop, "tier": ctx.tier, "seed": ctx.seed, "level": level,
          "coverage": coverage, "assumptions": assumptions,
          "wall_s": round(time.time() - ctx.t0, 2), "violations": violations}
    with open(os.path.join(evidence_dir(), ctx.prop + ".json"), "w") as f:
        json.dump(ev, f, indent=1)


def save_replay(ctx, name, obj):
    d = os.path.join(evidence_dir(), "replay")
    os.makedirs(d, exist_ok=True)
    p = os.path.join(d, "%s-%s-%s.json" % (ctx.prop, ctx.seed, name))
    with open(p, "w") as f:
        json.dump(obj, f)
    return p


def conclude(ctx, level, coverage, assumptions, found):
    """found: list of dict(key, what, replay(obj)). Splits into known/unknown, prints lines, returns exit code."""
    known = open_keys(ctx.prop)
    newv = []
    seen_known = {}
    for v in found:
        if v["key"] in known:
            seen_known.setdefault(v["key"], v)
        else:
            newv.append(v)
    for k, v in seen_known.items():
        print("KNOWN-FINDING: property=%s %s (%s)" % (ctx.prop, k, known[k].get("what", "")))
    coverage = dict(coverage)
    coverage["known_findings_seen"] = sorted(seen_known)
    write_evidence(ctx, level, coverage, assumptions, len(newv))
    if newv:
        bykey = {}
        for v in newv:
            bykey.setdefault(v["key"], v)
        for k, v in list(bykey.items())[:5]:
            rp = save_replay(ctx, re.sub(r"[^A-Za-z0-9_.-]", "_", k)[:60], v.get("replay", {}))
            print("VIOLATION property=%s replay=%s" % (ctx.prop, rp))
            print("  what: %s" % v.get("what", k))
        return 1
    print("HELD property=%s tier=%s seed=%s wall=%.1fs" % (ctx.prop, ctx.tier, ctx.seed, time.time() - ctx.t0))
    return 0
