"""Properties decided by two engines: the library-level connection state machine (server_family) and the
reference server (ref_family). Both parts run; coverage is merged, any violation of either part counts."""
from vf import *
import server_family, ref_family, lifecycle_family, framing_family, crypt_family, reload_family, conc_family

PARTS = {"C06": (server_family, ref_family), "C07": (server_family, ref_family, framing_family), "C20": (server_family, lifecycle_family), "C14": (ref_family, lifecycle_family),
         "C19": (server_family, ref_family), "C03": (crypt_family, ref_family), "C16": (reload_family, conc_family), "C18": (ref_family, reload_family)}


def merge(a, b):
    out = dict(a)
    for k, v in b.items():
        if k in out and isinstance(v, (int, float)) and not isinstance(v, bool) and isinstance(out[k], (int, float)):
            out[k] = out[k] + v
        elif k == "samples":
            out[k] = out.get(k, []) + v
        elif k == "rule":
            out[k] = "part 1: " + out.get(k, "") + " || part 2: " + v
        elif k in out and isinstance(v, list):
            out[k] = out[k] + v
        else:
            out.setdefault(k, v)
    out["exhaustive"] = False
    return out


def run(ctx, prop):
    cov, assumptions, found = None, [], []
    for m in PARTS[prop]:
        c, a, f = m.collect(ctx, prop)
        cov = c if cov is None else merge(cov, c)
        assumptions += [x for x in a if x not in assumptions]
        found += f
    level = "exploration" if prop == "C14" else "model_checking"
    return conclude(ctx, level, cov, assumptions, found)


def replay(ctx, prop, obj):
    k = obj.get("kind")
    if k == "ref":
        return ref_family.replay(ctx, prop, obj)
    if k == "life":
        return lifecycle_family.replay(ctx, prop, obj)
    if k == "chaos" and obj.get("scenario", {}).get("stream"):
        return framing_family.replay(ctx, prop, obj)
    if k == "reload":
        return reload_family.replay(ctx, prop, obj)
    if k in ("concgate", "race", "stress"):
        return conc_family.replay(ctx, prop, obj)
    if k == "client-event":
        return crypt_family.replay(ctx, prop, obj)
    return server_family.replay(ctx, prop, obj)
