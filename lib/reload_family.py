"""C16: Reload.tla. TLC enumerates all histories of documents (MC_Reload, emitted as replay scripts); every
history is fed to ONE real YAML / JSON loader instance (Unmarshal and Load(path)) by harness `reload`, next to a
fresh loader per document and a long-lived + fresh loader.Loader pair that is probed; Trace_Reload.tla judges."""
import json, os, random, re, copy
from vf import *

HASH = "24326124303424" + "61" * 20   # not a real hash; only equality of configurations matters here


def yaml_emit(v, ind=0):
    sp = "  " * ind
    if isinstance(v, dict):
        if not v:
            return "{}"
        out = []
        for k, x in v.items():
            if isinstance(x, (dict, list)) and x:
                out.append("%s%s:\n%s" % (sp, k, yaml_emit(x, ind + 1)))
            else:
                out.append("%s%s: %s" % (sp, k, yaml_emit(x, ind + 1)))
        return "\n".join(out)
    if isinstance(v, list):
        if not v:
            return "[]"
        out = []
        for x in v:
            if isinstance(x, (dict, list)) and x:
                body = yaml_emit(x, ind + 1)
                out.append("%s- %s" % (sp, body.lstrip()))
            else:
                out.append("%s- %s" % (sp, yaml_emit(x, ind + 1)))
        return "\n".join(out)
    if isinstance(v, bool):
        return "true" if v else "false"
    if isinstance(v, int):
        return str(v)
    return json.dumps(v)


def sec(name, key, prefixes):
    return {"name": name, "secret": {"group": "g", "key": key}, "handler": {"type": 1}, "type": 1, "options": {"prefixes": json.dumps(prefixes)}}


def base_doc():
    grp = {"name": "noc", "commands": [{"name": "configure", "match": ["terminal"], "action": 2}],
           "services": [{"name": "shell", "is_optional": False, "set_values": [{"name": "priv-lvl", "values": ["15"], "is_optional": False}]}],
           "authenticator": {"type": 1, "options": {"hash": HASH}}, "accounter": {"name": "file", "type": 3, "options": {}}}
    return {"secrets": [sec("s1", "key-one", ["10.1.0.0/16"]), sec("s2", "key-two", ["10.2.0.0/16", "10.1.0.0/16"])],
            "users": [
                {"name": "admin", "scopes": ["s1", "s2"], "groups": [grp], "commands": [{"name": "*", "action": 2}],
                 "services": [{"name": "exec", "is_optional": True, "set_values": [{"name": "x", "values": ["1"], "is_optional": True}]}],
                 "authenticator": {"type": 1, "options": {"hash": HASH}}, "accounter": {"name": "file", "type": 3, "options": {}}},
                {"name": "bob", "scopes": ["s1"]},
                {"name": "carol", "scopes": ["s2"], "commands": [{"name": "show", "action": 2}]}],
            "prefix_deny": ["10.1.9.0/24"], "prefix_allow": ["10.0.0.0/8"]}


def pool():
    """document id -> (python value or raw text, parses, minok)"""
    b = base_doc()
    P = {}
    P["base"] = (b, True, True)
    d = copy.deepcopy(b); del d["prefix_deny"]; P["nodeny"] = (d, True, True)
    d = copy.deepcopy(b); del d["prefix_allow"]; P["noallow"] = (d, True, True)
    d = copy.deepcopy(b); del d["prefix_allow"]; del d["prefix_deny"]; P["nofilters"] = (d, True, True)
    d = copy.deepcopy(b); d["users"] = d["users"][1:]; P["noadmin"] = (d, True, True)
    d = copy.deepcopy(b); d["users"] = d["users"][::-1]; P["revusers"] = (d, True, True)
    d = copy.deepcopy(b); d["users"][0] = {"name": "admin", "scopes": ["s1"]}; P["bareadmin"] = (d, True, True)
    d = copy.deepcopy(b); d["secrets"] = d["secrets"][1:]; P["onesecret"] = (d, True, True)
    # a prefix (and with it a scope) disappears altogether / a scope keeps its name but moves to other prefixes
    d = copy.deepcopy(b); d["secrets"] = [sec("s2", "key-two", ["10.2.0.0/16"])]; P["dropprefix"] = (d, True, True)
    d = copy.deepcopy(b); d["secrets"] = [sec("s1", "key-one", ["10.1.200.0/24"]), sec("s2", "key-two", ["10.2.0.0/24"])]; P["moved"] = (d, True, True)
    d = copy.deepcopy(b); d["secrets"] = d["secrets"][::-1]; d["users"].append({"name": "dave", "scopes": ["s1"]}); P["revsecrets"] = (d, True, True)
    d = copy.deepcopy(b); d["users"][0]["groups"] = []; d["users"][0]["commands"] = []; d["prefix_deny"] = ["10.2.0.0/24"]; P["changed"] = (d, True, True)
    # documents that parse and pass the minimum-content check but from which no scope can be built
    d = copy.deepcopy(b)
    for u in d["users"]:
        u.pop("scopes", None)
    P["noscopes"] = (d, True, True)
    d = copy.deepcopy(b); d["secrets"][0]["name"] = "t1"; d["secrets"][1]["name"] = "t2"; P["renamed"] = (d, True, True)
    P["garbage"] = ("{{{ not a configuration", False, False)
    d = copy.deepcopy(b); d["users"] = []; P["nousers"] = (d, True, False)
    d = copy.deepcopy(b); del d["secrets"]; P["nosecrets"] = (d, True, False)
    d = copy.deepcopy(b); d["users"][1]["scopes"] = 5; P["typeerror"] = (d, False, True)
    return P


def text_of(val, fmt):
    if isinstance(val, str):
        return val
    return json.dumps(val) if fmt == "json" else yaml_emit(val) + "\n"


def collect(ctx, prop):
    quick = ctx.tier == "quick"
    rng = random.Random(ctx.seed * 7 + 16)
    P = pool()
    ids = sorted(P)
    depth = 2 if quick else 3
    cfg = "MCR.cfg"
    parses = [i for i in ids if P[i][1]]
    minok = [i for i in ids if P[i][2]]
    with open(os.path.join(ctx.specdir(), cfg), "w") as f:
        f.write("SPECIFICATION Spec\nCONSTANTS\n  Docs = {%s}\n  Parses = {%s}\n  MinOK = {%s}\n  MaxLoads = %d\n  ChanCap = 1\nINVARIANTS ReloadEqualsFresh PublishedMatchesHistory PipelineExact DrainedEqualsFresh\nPROPERTIES PublishedOnlyGrows EventuallyInForce\nACTION_CONSTRAINT Emit\nCHECK_DEADLOCK FALSE\n"
                % (", ".join('"%s"' % i for i in ids), ", ".join('"%s"' % i for i in parses), ", ".join('"%s"' % i for i in minok), depth))
    emit = ctx.path("emit-reload.csv")
    r0 = ctx.tlc_ok("MC_Reload", cfg=cfg, env={"EMIT_FILE": emit}, workers=4)
    rw = ctx.tlc_ok("Watch", cfg="MC_Watch.cfg", workers=4)       # the watched file (fsnotify debounce) on top of the pipeline
    hists = [json.loads(x) for x in sorted({json.dumps(h) for h in emitted_json_lines(emit)})]
    ctx.log("MC_Reload: %d states, %d histories emitted" % (r0["distinct"], len(hists)))
    if not quick:
        # depth-4 histories, sampled
        hists += [[rng.choice(ids) for _ in range(4)] for _ in range(3000)]
    only_watch = prop != "C16"
    H = []
    probes = ["10.1.9.5", "10.1.0.5", "10.1.200.1", "10.2.0.5", "10.2.0.200", "10.2.9.9", "11.0.0.1", "192.168.1.1", "::ffff:10.1.9.9"]
    for n, h in enumerate(hists):
        for fmt in ("yaml", "json"):
            via = "load" if (n % 7 == 0) else "unmarshal"
            H.append({"id": "h%d-%s" % (n, fmt), "fmt": fmt, "via": via,
                      "docs": [{"doc": d, "text": text_of(P[d][0], fmt), "parses": P[d][1], "minok": P[d][2]} for d in h],
                      "probes": probes, "users": ["admin", "bob", "carol", "dave"]})
    # bursts: good documents loaded back to back while the update loop is held in its first build
    good = [i for i in ids if P[i][1] and P[i][2]]
    nb = 40 if quick else 600
    for n in range(nb):
        trip = [rng.choice(good) for _ in range(rng.choice([3, 3, 4]))]
        fmt = rng.choice(["yaml", "json"])
        H.append({"id": "b%d-%s" % (n, fmt), "fmt": fmt, "via": "unmarshal", "burst": True,
                  "docs": [{"doc": d, "text": text_of(P[d][0], fmt), "parses": True, "minok": True} for d in trip],
                  "probes": probes, "users": ["admin", "bob", "carol", "dave"]})
    # histories played through the file system (real fsnotify watcher + loader.NewLocalConfig, one-second debounce): they run
    # side by side, so they cost a few seconds in all
    if only_watch:
        H = []           # other properties (C18: what the watcher and the loader log) use the watched histories only
    nw = 16 if quick else 80        # every watcher holds an inotify instance for the life of the process (128 per user here)
    bad = [i for i in ids if not (P[i][1] and P[i][2])]
    for n in range(nw):
        docs = [rng.choice(good)] + [rng.choice(ids) if rng.random() < 0.75 else rng.choice(good) for _ in range(rng.choice([2, 3]))]
        if only_watch:
            docs[1] = bad[n % len(bad)]      # every kind of document that is refused, in turn
        H.append({"id": "w%d" % n, "fmt": "yaml", "via": "watch",
                  "docs": [{"doc": d, "text": text_of(P[d][0], "yaml"), "parses": P[d][1], "minok": P[d][2]} for d in docs],
                  "probes": probes, "users": ["admin", "bob", "carol", "dave"], "secrets": ["key-one", "key-two"]})
    hf = ctx.path("hist.ndjson")
    with open(hf, "w") as f:
        for h in H:
            f.write(json.dumps(h) + "\n")
    tf = ctx.path("trace.ndjson")
    p = ctx.run_harness(["reload", hf, tf], timeout=1500)
    st = json.loads(p.stdout.strip().splitlines()[-1])
    os.makedirs(ctx.path("chunks"), exist_ok=True)
    res = validate_chunks(ctx, "Trace_Reload", split_trace(tf, NCPU * (1 if quick else 2), ctx.path("chunks")), heap="3g")
    byid = {h["id"]: h for h in H}
    found, cnt = [], {}
    for rr in res:
        for m in re.finditer(r'"CNT",\s*\[(.*?)\]', rr["out"], re.S):
            for k, v in re.findall(r'(\w+) \|-> (\d+)', m.group(1)):
                cnt[k] = cnt.get(k, 0) + int(v)
        for line in rr["out"].splitlines():
            m = re.match(r'^<<"PV", \{(.*?)\}, "(.*?)", (\d+), "(.*?)">>$', line)
            if m and prop in m.group(1):
                h = byid.get(m.group(2), {})
                found.append({"key": "%s:%s:%s" % (prop, h.get("fmt"), m.group(4)), "what": "history %s (%s): %s" % (m.group(2), " -> ".join(d["doc"] for d in h.get("docs", [])), m.group(4)),
                              "replay": {"kind": "reload", "history": h}})
    cov = {"states": ctx.tlc_distinct, "transitions": ctx.tlc_states, "traces_validated_against_impl": len(H),
           "evaluations": len(H), "distinct_nontrivial": len([h for h in H if len(h["docs"]) >= 2]),
           "rule": "one evaluation = one history of documents fed to one real loader instance (YAML or JSON; Unmarshal or Load(path)); all histories up to length %d over a pool of %d documents as enumerated by TLC%s; non-trivial = history with >= 2 documents" % (depth, len(ids), "" if quick else " + 3000 sampled histories of length 4"),
           "samples": [{"id": H[-1]["id"], "docs": [d["doc"] for d in H[-1]["docs"]], "fmt": H[-1]["fmt"], "via": H[-1]["via"]}],
           "oracle_counts": cnt, "events": st["events"], "exhaustive": True, "pool": ids}
    return cov, ["the value a FRESH real loader publishes for the same text is the reference for 'equals a fresh start' (as the property states it)",
                 "published values are compared in the normal form of Go's encoding/json",
                 "watched histories: the real fsnotify watcher is given a bounded time (30 s) to reload after a rewrite; a bad document is given 2.5 s in which nothing must change"], found


def run(ctx, prop):
    cov, a, found = collect(ctx, prop)
    return conclude(ctx, "model_checking", cov, a, found)


def replay(ctx, prop, obj):
    hf = ctx.path("hist.ndjson")
    with open(hf, "w") as f:
        f.write(json.dumps(obj["history"]) + "\n")
    tf = ctx.path("trace.ndjson")
    ctx.run_harness(["reload", hf, tf])
    r = ctx.tlc("Trace_Reload", env={"TRACE_FILE": tf})
    hit = False
    for line in r["out"].splitlines():
        if line.startswith('<<"PV"'):
            print(line)
            hit = hit or prop in line
    return 1 if hit else 0
