"""C05: Framing.tla / FramingFn.tla. MC_Framing explores all segmentations of all small streams; the real
server is fed byte streams cut into seeded chunkings (harness `chaos`, stream mode) and TLC compares the packets
the handler received with FramingFn!Parse(stream) (Trace_Framing); the client direction (replies written in
several TCP segments) is judged by Trace_Client."""
import json, os, random, re
from vf import *

LENS = [0, 1, 5, 11, 12, 13, 94, 95, 96, 107, 108, 119, 200, 1000, 4096]


def stream_scenario(rng, idx, big=False):
    n = rng.randint(1, 6)
    pk, open_s = [], {}
    total = 0
    for j in range(n):
        sid = rng.randint(0, 3)
        if sid in open_s:
            seq = open_s[sid]
        else:
            seq = 1
        cont = rng.random() < 0.3 and seq < 250
        ln = rng.choice(LENS)
        if big and j == 0:
            ln = 65536
        body = [rng.randint(0, 255) for _ in range(ln)]
        pk.append({"sid": sid, "seq": seq, "ty": rng.randint(1, 3), "min": rng.randint(0, 1), "fl": rng.randint(0, 255) | 1,
                   "rd": "ok", "ops": ["next", "reply"] if cont else ["reply"], "body": body, "bv": rng.randint(0, 50)})
        total += 12 + ln
        if cont:
            open_s[sid] = seq + 2
        else:
            open_s.pop(sid, None)
    sc = {"id": "st%d" % idx, "stream": True, "pkts": pk, "end": rng.choice(["idle", "idle", "eof", "fire"])}
    r = rng.random()
    if r < 0.12:
        pk[-1]["rd"] = "oversize"
        pk[-1].pop("body", None)
        total = sum(12 + len(p.get("body", [])) for p in pk)
    elif r < 0.35:
        last = 12 + len(pk[-1]["body"])
        sc["trunc"] = rng.randint(1, last)
        total -= sc["trunc"]
    # segmentation
    k = rng.random()
    cuts = []
    if k < 0.15:
        cuts = []                                   # whole stream in one read
    elif k < 0.3 and total <= 800:
        cuts = [1] * total                          # one octet per read
    elif k < 0.55:
        # cuts exactly on / around header and body boundaries
        off = 0
        for p in pk:
            b = len(p.get("body", []))
            for c in (12 + rng.choice([-1, 0, 1]), b + rng.choice([-1, 0, 1])):
                if c > 0:
                    cuts.append(c)
    elif k < 0.75:
        rest = total
        while rest > 0 and len(cuts) < 200:
            c = rng.choice([1, 2, 11, 12, 13, 106, 107, 108, 214, rng.randint(1, 300)])
            cuts.append(c)
            rest -= c
    else:
        rest = total
        while rest > 0 and len(cuts) < 60:
            c = rng.randint(1, max(1, rest))
            cuts.append(c)
            rest -= c
    sc["cuts"] = cuts
    return sc


def proxy_line(rng):
    """octets before a packet header on a proxy-mode connection"""
    good = "PROXY %s %s %s %d %d" % (rng.choice(["TCP4", "TCP6", "tcp", "Tcp4", "TCP"]), rng.choice(["10.0.0.1", "2001:db8::1", "x"]), rng.choice(["10.0.0.2", "::1", ""]),
                                     rng.randint(0, 65535), rng.randint(0, 65535))
    k = rng.random()
    if k < 0.80:
        s = good + rng.choice(["\r\n\x00", "\r\n\x00", "\x00", "\n\x00"])
    elif k < 0.83:
        s = ""                                                     # no line at all: the header itself is searched for the terminator
    elif k < 0.86:
        s = good.replace("PROXY", "PROXI") + "\r\n\x00"
    elif k < 0.89:
        s = good.replace(" ", "  ", 1) + "\r\n\x00"               # seven chunks
    elif k < 0.92:
        s = good.replace("TCP", "UDP").replace("tcp", "udp").replace("Tcp", "Udp") + "\r\n\x00"
    elif k < 0.95:
        s = "x" + good + " \r\n\x00"
    elif k < 0.975:
        s = good + "\r\n"                                          # terminator missing: the search runs on into the header
    else:
        s = "".join(chr(rng.randint(1, 255)) for _ in range(rng.randint(0, 300))) + "PROXY tcp a b c d\x00"
    return list(s.encode("latin1"))


def proxy_scenario(rng, idx):
    sc = stream_scenario(rng, idx)
    sc["id"] = "px%d" % idx
    sc["proxy"] = True
    extra = 0
    for p in sc["pkts"]:
        p["pre"] = proxy_line(rng)
        extra += len(p["pre"])
    if sc.get("cuts") and sum(sc["cuts"]) > 0 and rng.random() < 0.7:
        # re-cut over the longer stream, now also around the line boundaries
        total = extra + sum(12 + len(p.get("body", [])) for p in sc["pkts"]) - sc.get("trunc", 0)
        cuts, rest = [], total
        while rest > 0 and len(cuts) < 120:
            c = rng.choice([1, 2, 3, 11, 12, 13, 30, 107, 108, rng.randint(1, 200)])
            cuts.append(c)
            rest -= c
        sc["cuts"] = cuts
    return sc


def collect(ctx, prop):
    quick = ctx.tier == "quick"
    rng = random.Random(ctx.seed * 65537 + 5)
    cfg = "MCF.cfg"
    with open(os.path.join(ctx.specdir(), cfg), "w") as f:
        f.write("SPECIFICATION Spec\nCONSTANTS\n  MaxB = %d\n  MaxP = %d\nINVARIANTS DeliveredIsPrefix FinalMatches RefusedAtOnce NoShortPacket\nCHECK_DEADLOCK FALSE\n" % ((2, 3) if quick else (3, 4)))
    r0 = ctx.tlc_ok("MC_Framing", cfg=cfg, workers=NCPU, heap="8g")
    ctx.log("MC_Framing: %d states (all segmentations of all small streams)" % r0["distinct"])
    nscen, nbig, ncli = (600, 1, 150) if quick else (12000, 8, 2000)
    scen = [stream_scenario(rng, i, i < nbig) for i in range(nscen)]
    # growth beyond the listed properties: the reader in proxy mode (FramingProxy.tla), judged as model divergence only
    pcfg = "MCFP.cfg"
    with open(os.path.join(ctx.specdir(), pcfg), "w") as f:
        f.write("SPECIFICATION Spec\nCONSTANTS\n  MaxB = %d\n  MaxP = %d\nINVARIANTS DeliveredIsPrefix FinalMatches NoShortPacket\nCHECK_DEADLOCK FALSE\n" % ((2, 2) if quick else (2, 3)))
    full = prop == "C05"          # other properties (C07: pipelined requests) only use the plain stream scenarios
    rp = {"distinct": 0}
    if full:
        rp = ctx.tlc_ok("MC_FramingProxy", cfg=pcfg, workers=NCPU, heap="8g")
        scen += [proxy_scenario(rng, i) for i in range(200 if quick else 4000)]
    sfile = ctx.path("scen.ndjson")
    with open(sfile, "w") as f:
        for s in scen:
            f.write(json.dumps(s) + "\n")
    tf = ctx.path("trace.ndjson")
    p = ctx.run_harness(["chaos", sfile, tf, str(ctx.seed)])
    st1 = json.loads(p.stdout.strip().splitlines()[-1])
    os.makedirs(ctx.path("chunks"), exist_ok=True)
    chunks = split_trace(tf, NCPU * (1 if quick else 3), ctx.path("chunks"))
    res = validate_chunks(ctx, "Trace_Framing", chunks, heap="4g")
    byid = {s["id"]: s for s in scen}
    found, cnt, pdivs = [], {}, []
    for rr in res:
        pdivs += [l[:160] for l in rr["out"].splitlines() if l.startswith('<<"DIV"')]
        for m in re.finditer(r'"CNT",\s*\[(.*?)\]', rr["out"], re.S):
            for k, v in re.findall(r'(\w+) \|-> (\d+)', m.group(1)):
                cnt[k] = cnt.get(k, 0) + int(v)
        for line in rr["out"].splitlines():
            m = re.match(r'^<<"PV", \{(.*?)\}, "(.*?)", (\d+), "stream">>$', line)
            if m and prop in m.group(1):
                s = byid.get(m.group(2), {})
                kind = "oversize" if s.get("pkts", [{}])[-1].get("rd") == "oversize" else ("truncated" if s.get("trunc") else "segmentation")
                what = ("stream scenario %s (%s): delivered packets differ from Parse(stream) or the end-of-stream rule is broken" if prop == "C05" else
                        "stream scenario %s (%s): several requests per read - a reply was not written before the next request was handled, or is missing at rest") % (m.group(2), kind)
                found.append({"key": "%s:server:%s" % (prop, kind), "what": what,
                              "replay": {"kind": "chaos", "scenario": s, "seed": ctx.seed}})
    # client direction: replies in several TCP segments
    cf_ = ctx.path("client.ndjson")
    st2, cres = {"events": 0}, []
    if full:
        p = ctx.run_harness(["client", cf_, str(ctx.seed), str(ncli)], timeout=900)
        st2 = json.loads(p.stdout.strip().splitlines()[-1])
        os.makedirs(ctx.path("cchunks"), exist_ok=True)
        cres = validate_chunks(ctx, "Trace_Client", split_trace(cf_, NCPU, ctx.path("cchunks"), marker=None), heap="4g")
    for rr in cres:
        lines = open(rr["file"]).read().splitlines()
        for line in rr["out"].splitlines():
            m = re.match(r'^<<"PV", \{(.*?)\}, "(.*?)", (\d+), "client">>$', line)
            if m and prop in m.group(1):
                found.append({"key": "%s:client:%s" % (prop, m.group(2)), "what": "client direction: reply not reassembled",
                              "replay": {"kind": "client-event", "event": json.loads(lines[int(m.group(3)) - 1])}})
    sample = dict(scen[-1])
    sample["pkts"] = [dict(p, body="%d octets" % len(p.get("body", []))) for p in sample["pkts"]]
    sample["cuts"] = sample["cuts"][:30]
    cov = {"states": ctx.tlc_distinct, "transitions": ctx.tlc_states, "traces_validated_against_impl": len(scen) + st2["events"],
           "evaluations": len(scen), "distinct_nontrivial": len({json.dumps(s["cuts"]) + str(len(s["pkts"])) for s in scen if s["cuts"]}),
           "rule": "one evaluation = one byte stream (1..6 packets, bodies 0..65536) with one chunking fed to the real server; non-trivial = distinct chunking that actually cuts the stream",
           "samples": [sample], "oracle_counts": cnt, "design_states": r0["distinct"], "client_events": st2["events"], "exhaustive": False,
           "proxy_mode": {"design_states": rp["distinct"], "streams": cnt.get("proxy", 0), "model_divergences": len(pdivs), "first_divergences": pdivs[:5]}}
    return cov, ["connections are scripted in-memory net.Conn objects returning exactly the scripted chunks per Read",
                 "stream scenarios carry the unencrypted flag (obfuscation is C03's concern)",
                 "allocation is measured with runtime.MemStats around the whole stream"], found


def run(ctx, prop):
    cov, a, found = collect(ctx, prop)
    return conclude(ctx, "model_checking", cov, a, found)


def replay(ctx, prop, obj):
    if obj.get("kind") != "chaos":
        import crypt_family
        return crypt_family.replay(ctx, prop, obj)
    sfile = ctx.path("scen.ndjson")
    with open(sfile, "w") as f:
        f.write(json.dumps(obj["scenario"]) + "\n")
    tf = ctx.path("trace.ndjson")
    ctx.run_harness(["chaos", sfile, tf, str(obj.get("seed", 1))])
    r = ctx.tlc("Trace_Framing", env={"TRACE_FILE": tf})
    hit = False
    for line in r["out"].splitlines():
        if line.startswith('<<"PV"') or line.startswith('<<"CNT"'):
            print(line)
            hit = hit or ('"PV"' in line and prop in line)
    return 1 if hit else 0
