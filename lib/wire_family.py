"""C01 C02 C04: Wire.tla (RFC 8907 layouts, validity, canonical + implementation-shaped decoders).
TLC checks the specification on a small exhaustive domain and on all short octet strings (MC_Wire),
the real codecs are driven by harness `codec`, and every recorded operation is judged by TLC (Trace_Wire)."""
import json, os, re
from vf import *

PV_RE = re.compile(r'^<<"PV", \{(.*?)\}, "(.*?)", (\d+), "(.*?)">>$')
MODE = {"C01": "c01", "C02": "c02", "C04": "c04"}


def mc_wire(ctx, maxlen):
    cfg = "MCW.cfg"
    with open(os.path.join(ctx.specdir(), cfg), "w") as f:
        f.write("""SPECIFICATION Spec
CONSTANTS
  MaxLen = %d
  Alphabet = {0, 1, 2, 5, 255}
INVARIANTS ImplSafe CanonAgree MImpliesDetected WNeverDetected DeterminateCoincide HeaderTotal
CHECK_DEADLOCK FALSE
""" % maxlen)
    return ctx.tlc_ok("MC_Wire", cfg=cfg, workers=NCPU, heap="8g")


def run(ctx, prop):
    quick = ctx.tier == "quick"
    r = mc_wire(ctx, 6 if quick else 8)
    ctx.log("MC_Wire: %d octet strings explored" % r["distinct"])
    n = {"C01": (2500, 60000), "C02": (3000, 60000), "C04": (12000, 300000)}[prop][0 if quick else 1]
    tf = ctx.path("trace.ndjson")
    p = ctx.run_harness(["codec", tf, str(ctx.seed), str(n), MODE[prop]])
    stats = json.loads(p.stdout.strip().splitlines()[-1])
    lines = open(tf).read().splitlines()
    os.makedirs(ctx.path("chunks"), exist_ok=True)
    chunks = split_trace(tf, NCPU * (1 if quick else 3), ctx.path("chunks"), marker=None)
    res = validate_chunks(ctx, "Trace_Wire", chunks)
    found, others, divs = [], set(), 0
    cnt = {}
    for rr in res:
        base = 0
        out = rr["out"]
        for m in re.finditer(r'"CNT",\s*\[(.*?)\]', out, re.S):
            for k, v in re.findall(r'(\w+) \|-> (\d+)', m.group(1)):
                cnt[k] = cnt.get(k, 0) + int(v)
        chunk_lines = open(rr["file"]).read().splitlines()
        for line in out.splitlines():
            if line.startswith('<<"DIV"'):
                divs += 1
            m = PV_RE.match(line)
            if not m:
                continue
            tags = set(re.findall(r'"(C\d+)"', m.group(1)))
            ev = json.loads(chunk_lines[int(m.group(3)) - 1])
            if prop in tags:
                found.append({"key": "%s:%s:%s" % (prop, m.group(2), m.group(4)),
                              "what": "%s violated by %s of %s (%d octets)" % (prop, m.group(2), m.group(4), len(ev.get("b", []))),
                              "replay": {"kind": "codec", "event": ev}})
            others |= tags - {prop}
    samples = []
    for i in (0, len(lines) // 2, len(lines) - 1):
        e = json.loads(lines[i])
        if len(e.get("b", [])) > 64:
            e["b"] = e["b"][:64] + ["... %d octets" % len(e["b"])]
        for fld in ("v", "v2", "v3"):
            if isinstance(e.get(fld), dict):
                e[fld] = {k: (x if not (isinstance(x, list) and len(x) > 40) else x[:40] + ["..."]) for k, x in e[fld].items()}
        samples.append(e)
    distinct = len(set(lines))
    cov = {"states": ctx.tlc_distinct, "transitions": ctx.tlc_states, "traces_validated_against_impl": len(lines),
           "evaluations": len(lines), "distinct_nontrivial": distinct,
           "rule": "one evaluation = one recorded encode/decode operation of the real codec judged by TLC with Wire.tla; distinct = distinct recorded events (kind, value/bytes, outcome); enum sweep + seeded values with boundary-biased lengths (%s mode)" % MODE[prop],
           "samples": samples, "oracle_counts": cnt, "model_divergences": divs,
           "design_octet_strings": r["distinct"], "other_property_observations": sorted(others), "exhaustive": False}
    return conclude(ctx, "model_checking", cov,
                    ["Wire.tla is the reading of RFC 8907 sections 4.1, 5.1-5.3, 6.1-6.2, 7.1-7.2 and of the types' validation rules",
                     "canonical input octets for the decode direction are laid out by the harness without the library's encoder; TLC re-checks canonicity (Wire!Dec) before imposing an obligation",
                     "panic / allocation / spare-capacity sensors are Go runtime facilities (recover, MemStats, canary-filled capacity)"],
                    found)


def replay(ctx, prop, obj):
    tf = ctx.path("trace.ndjson")
    with open(tf, "w") as f:
        f.write(json.dumps(obj["event"]) + "\n")
    print("recorded event (re-judged by TLC; re-run the check to re-execute the codec):")
    r = ctx.tlc("Trace_Wire", env={"TRACE_FILE": tf})
    hit = False
    for line in r["out"].splitlines():
        if line.startswith('<<"PV"'):
            print(line)
            hit = hit or prop in line
    return 1 if hit else 0
