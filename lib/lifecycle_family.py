"""C17 (+ Serve-level part of C20, accept-loop part of C14): Lifecycle.tla model-checked for safety and liveness;
TLC emits one schedule of environment actions per explored environment transition; each schedule is replayed on the
real Serve with a fake listener, gates and a logical clock (harness `life`); Trace_Lifecycle.tla judges the observed order."""
import json, os, random, re, tempfile, time
from vf import *

OPMAP = {"lclose": "lclose", "offer": "offer", "release": "release", "packet": "packet", "partial": "partial", "eof": "eof", "hrel": "hrel",
         "cancel": "cancel", "kick": "kick", "fire": "fire"}


def mc(ctx, conns, maxpkts, emit):
    cfg = "MCL.cfg"
    with open(os.path.join(ctx.specdir(), cfg), "w") as f:
        f.write("SPECIFICATION Spec\nCONSTANTS\n  Conns = %s\n  MaxPkts = %d\n  Defects = {}\n  Record = TRUE\nVIEW View\nACTION_CONSTRAINT Emit\n"
                "INVARIANTS ServeReturnsLast DeadlineArmed GaugesSane AtRestWhenReturned GaugeTracksLive AtRestWhenIdle\nCHECK_DEADLOCK FALSE\n" % (conns, maxpkts))
    return ctx.tlc_ok("MC_Lifecycle", cfg=cfg, env={"EMIT_FILE": emit}, workers=min(NCPU, 8), heap="8g")


CONTROLS = {"addInGoroutine": "ServeReturnsLast", "noDeadline": "DeadlineArmed", "noWait": "ServeReturnsLast",
            "closeErrNoWait": "ServeReturnsLast", "gaugeStoreRace": "AtRestWhenIdle"}


def controls(ctx):
    """every defect switch of Lifecycle.tla must break the invariant it is aimed at (the invariants are not vacuous)"""
    done = {}
    for d, inv in sorted(CONTROLS.items()):
        cfg = "MCLC_%s.cfg" % d
        with open(os.path.join(ctx.specdir(), cfg), "w") as f:
            f.write("SPECIFICATION Spec\nCONSTANTS\n  Conns = {1, 2}\n  MaxPkts = 1\n  Defects = {\"%s\"}\n  Record = FALSE\nINVARIANT %s\nCHECK_DEADLOCK FALSE\n" % (d, inv))
        r = ctx.tlc("MC_Lifecycle", cfg=cfg, workers=4, heap="4g", timeout=600)
        if ("Invariant %s is violated" % inv) not in r["out"]:
            raise Inconclusive("Lifecycle.tla: defect %s does not break %s - the invariant would be vacuous:\n%s" % (d, inv, tail(r["out"], 20)))
        done[d] = inv
    # action property: the context is polled between accepts (holds in the design, broken by pollOnlyOnTimeout)
    for prop_, d, want in (("PollsContextBetweenAccepts", "", False), ("PollsContextBetweenAccepts", "pollOnlyOnTimeout", True),
                           ("PollsContextBetweenReads", "", False), ("PollsContextBetweenReads", "serveOnAfterCancel", True)):
        cfg = "MCLC_%s%d.cfg" % (prop_[-5:], int(want))
        with open(os.path.join(ctx.specdir(), cfg), "w") as f:
            f.write("SPECIFICATION Spec\nCONSTANTS\n  Conns = {1, 2}\n  MaxPkts = 1\n  Defects = {%s}\n  Record = FALSE\nPROPERTY %s\nCHECK_DEADLOCK FALSE\n" % ((('"%s"' % d) if d else ""), prop_))
        r = ctx.tlc("MC_Lifecycle", cfg=cfg, workers=4, heap="4g", timeout=600)
        broken = ("%s is violated" % prop_) in r["out"] or "Action property" in r["out"] and "violated" in r["out"]
        if broken != want or (not want and "No error has been found" not in r["out"]):
            raise Inconclusive("Lifecycle.tla: %s with defects {%s}: expected %s:\n%s" % (prop_, d, "a violation" if want else "no error", tail(r["out"], 20)))
    done["pollOnlyOnTimeout"] = "PollsContextBetweenAccepts"
    done["serveOnAfterCancel"] = "PollsContextBetweenReads"
    # liveness control: a provider that stops answering after cancellation breaks ShutdownCompletes
    cfg = "MCLC_live.cfg"
    with open(os.path.join(ctx.specdir(), cfg), "w") as f:
        f.write("SPECIFICATION LiveSpec\nCONSTANTS\n  Conns = {1, 2}\n  MaxPkts = 1\n  Defects = {\"lookupDiesOnCancel\"}\n  Record = FALSE\nPROPERTY ShutdownCompletes\nCHECK_DEADLOCK FALSE\n")
    r = ctx.tlc("MC_Lifecycle", cfg=cfg, workers=4, heap="4g", timeout=600)
    if not re.search(r"Temporal propert(y|ies) .*violated", r["out"]):
        raise Inconclusive("Lifecycle.tla: defect lookupDiesOnCancel does not break ShutdownCompletes:\n%s" % tail(r["out"], 20))
    done["lookupDiesOnCancel"] = "ShutdownCompletes"
    # the environment assumption of the liveness property: replies can be written (there is no write deadline in the code)
    cfg = "MCLC_peer.cfg"
    with open(os.path.join(ctx.specdir(), cfg), "w") as f:
        f.write("SPECIFICATION LiveSpec\nCONSTANTS\n  Conns = {1, 2}\n  MaxPkts = 1\n  Defects = {\"peerNeverReads\"}\n  Record = FALSE\nPROPERTY ShutdownCompletes\nCHECK_DEADLOCK FALSE\n")
    r = ctx.tlc("MC_Lifecycle", cfg=cfg, workers=4, heap="4g", timeout=600)
    if not re.search(r"Temporal propert(y|ies) .*violated", r["out"]):
        raise Inconclusive("Lifecycle.tla: a peer that never reads does not break ShutdownCompletes:\n%s" % tail(r["out"], 20))
    done["peerNeverReads (environment assumption)"] = "ShutdownCompletes"
    return done


def inductive(ctx, big=False):
    """Apalache: the safety part of Lifecycle.tla as an inductive invariant (fixed number of connections, any number of
    steps); two defect switches must break the inductive step. A tool failure is reported, never a verdict."""
    import shutil as _sh, subprocess as _sp
    if not _sh.which("apalache-mc"):
        return {"status": "skipped: apalache-mc not found"}
    d = ctx.specdir()
    out = {"status": "ok", "runs": []}

    def apa(cinit, init, inv, length, expect_ok):
        od = tempfile.mkdtemp(prefix="apa-", dir=ctx.work)
        cmd = ["apalache-mc", "check", "--out-dir=" + od, "--cinit=" + cinit, "--init=" + init, "--inv=" + inv, "--length=%d" % length, "Lifecycle.tla"]
        t0 = time.time()
        try:
            r = _sp.run(cmd, cwd=d, capture_output=True, text=True, timeout=900)
        except _sp.TimeoutExpired:
            out["status"] = "skipped: apalache timeout"
            return None
        finally:
            _sh.rmtree(od, ignore_errors=True)
        ok = "EXITCODE: OK" in r.stdout
        err = "EXITCODE: ERROR (12)" in r.stdout          # a counterexample
        out["runs"].append({"cinit": cinit, "init": init, "inv": inv, "length": length, "holds": ok, "s": round(time.time() - t0, 1)})
        if not ok and not err:
            out["status"] = "skipped: apalache failed: " + tail(r.stdout + r.stderr, 5)
            return None
        if ok != expect_ok:
            raise Inconclusive("Lifecycle.tla: Apalache %s --init=%s --inv=%s --length=%d gave %s (expected %s)" % (cinit, init, inv, length, "OK" if ok else "a counterexample", "OK" if expect_ok else "a counterexample"))
        return ok

    c = "CInit6" if big else "CInit"
    for (ci, i0, iv, ln, exp) in [(c, "Init", "IndInv", 0, True), (c, "IndInv", "IndInv", 1, True), (c, "IndInv", "Safety", 0, True),
                                  ("CInitNoWait", "IndInv", "IndInv", 1, False), ("CInitAddIn", "IndInv", "IndInv", 1, False)]:
        if apa(ci, i0, iv, ln, exp) is None:
            break
    return out


def burst_schedules(rng, n, rounds, width):
    """bursts of connections that all finish at the same moment, with a reading of the gauges once all goroutines are gone"""
    out = []
    for i in range(n):
        steps = []
        for _ in range(rounds):
            k = rng.randint(2, width)
            steps.append(["offern", k])
            if rng.random() < 0.5:
                steps.append(["releaseall", 0])        # all refused at admission at once
            else:
                steps += [["admitall", 0], ["eofall", 0]]  # all admitted, then all peers hang up at once
            steps.append(["rest", 0])
        out.append({"id": "burst%d" % i, "steps": steps, "refuse": []})
    return out


def rand_schedule(rng, idx):
    n = rng.randint(1, 3)
    steps, state = [], {}
    refuse = [c for c in range(1, n + 1) if rng.random() < 0.15]
    for _ in range(rng.randint(3, 14)):
        c = rng.randint(1, n)
        st = state.get(c, "none")
        r = rng.random()
        if st == "none":
            steps.append(["offer", c]); state[c] = "offered"
        elif st == "offered":
            if r < 0.7:
                steps.append(["release", c]); state[c] = "open"
            elif r < 0.85:
                steps.append(["cancel", 0]); steps.append(["kick", 0])
            else:
                steps.append(["tick", rng.choice([5, 11])])
        else:
            if r < 0.1:
                steps.append(["packetc", c]); state[c] = "handler"
            elif r < 0.3:
                steps.append(["packet", c]); state[c] = "handler"
            elif r < 0.5:
                steps.append(["hrel", c]); state[c] = "open"
            elif r < 0.7:
                steps.append(["partial", c])
            elif r < 0.85:
                steps.append(["tick", rng.choice([5, 9, 14, 16])])
            elif r < 0.9:
                steps.append(["eof", c])
            elif r < 0.94:
                steps.append(["acceptfault", 0])
            elif r < 0.955:
                steps.append(["lclose", 0])
            elif r < 0.97:
                steps.append(["cancel", 0])
            else:
                steps.append(["kick", 0])
    return {"id": "lr%d" % idx, "steps": steps, "refuse": refuse}


def drip_schedules():
    """client pacing: one octet just before each deadline"""
    out = []
    for k, gap in enumerate([14, 10, 7]):
        steps = [["offer", 1], ["release", 1]]
        for _ in range(6):
            steps += [["partial", 1], ["tick", gap]]
        out.append({"id": "drip%d" % k, "steps": steps, "refuse": []})
        steps2 = [["offer", 1], ["release", 1], ["packet", 1], ["hrel", 1]]
        for _ in range(5):
            steps2 += [["partial", 1], ["tick", gap]]
        out.append({"id": "drip2-%d" % k, "steps": steps2, "refuse": []})
    # an exchange left waiting for its next packet, then silence past the deadline; the operator closing the listener himself
    out.append({"id": "midex1", "steps": [["offer", 1], ["release", 1], ["packetc", 1], ["hrel", 1], ["tick", 16], ["tick", 16]], "refuse": []})
    out.append({"id": "midex2", "steps": [["offer", 1], ["release", 1], ["packetc", 1], ["hrel", 1], ["packetc", 1], ["hrel", 1], ["tick", 20], ["offer", 2], ["release", 2], ["tick", 20]], "refuse": []})
    out.append({"id": "opclose1", "steps": [["offer", 1], ["release", 1], ["packet", 1], ["cancel", 0], ["lclose", 0]], "refuse": []})
    out.append({"id": "opclose2", "steps": [["offer", 1], ["release", 1], ["offer", 2], ["lclose", 0], ["cancel", 0]], "refuse": []})
    out.append({"id": "opclose3", "steps": [["offer", 1], ["release", 1], ["packetc", 1], ["lclose", 0]], "refuse": []})
    out.append({"id": "fault1", "steps": [["offer", 1], ["release", 1], ["acceptfault", 0], ["offer", 2], ["release", 2], ["packet", 2], ["hrel", 2]], "refuse": []})
    out.append({"id": "fault2", "steps": [["acceptfault", 0], ["acceptfault", 0], ["offer", 1], ["release", 1], ["packet", 1], ["hrel", 1]], "refuse": []})
    # admission through a real loader.Loader that lives on Serve's context: connections that arrive around the cancellation
    L = lambda i, steps, refuse=(): out.append({"id": "ldr%d" % i, "steps": steps, "refuse": list(refuse), "loader": True})
    L(1, [["offer", 1], ["release", 1], ["packet", 1], ["hrel", 1], ["cancel", 0], ["offer", 2], ["release", 2]])
    L(2, [["cancel", 0], ["offer", 1], ["release", 1]])
    L(3, [["offer", 1], ["cancel", 0], ["release", 1], ["offer", 2], ["release", 2], ["kick", 0]])
    L(4, [["offer", 1], ["release", 1], ["packetc", 1], ["cancel", 0], ["offer", 2], ["kick", 0], ["release", 2], ["hrel", 1]])
    L(5, [["offer", 1], ["release", 1], ["eof", 1], ["offer", 2], ["release", 2], ["packet", 2], ["hrel", 2], ["cancel", 0], ["kick", 0]])
    # connections that keep arriving after the cancellation: the one Accept that was already blocked may take one, no more
    out.append({"id": "arrive1", "steps": [["offer", 1], ["release", 1], ["cancel", 0], ["offer", 2], ["release", 2], ["offer", 3], ["release", 3], ["offer", 4], ["release", 4]], "refuse": []})
    out.append({"id": "arrive2", "steps": [["cancel", 0], ["offer", 1], ["offer", 2], ["offer", 3], ["release", 1], ["release", 2], ["release", 3]], "refuse": []})
    out.append({"id": "arrive3", "steps": [["offer", 1], ["release", 1], ["packetc", 1], ["cancel", 0], ["offer", 2], ["offer", 3], ["hrel", 1], ["offer", 4], ["offer", 5]], "refuse": []})
    # the server in proxy mode (a PROXY line before every packet, as the code expects it): silent peers, unterminated lines,
    # exchanges left half-way, cancellation - the deadline and shutdown clauses do not depend on the option
    P = lambda i, steps: out.append({"id": "proxy%d" % i, "steps": steps, "refuse": [], "proxy": True})
    P(1, [["offer", 1], ["release", 1], ["tick", 16], ["tick", 16]])
    P(2, [["offer", 1], ["release", 1], ["partial", 1], ["tick", 14], ["partial", 1], ["tick", 14]])
    P(3, [["offer", 1], ["release", 1], ["packet", 1], ["hrel", 1], ["tick", 20], ["offer", 2], ["release", 2], ["cancel", 0]])
    P(4, [["offer", 1], ["release", 1], ["packetc", 1], ["hrel", 1], ["packetc", 1], ["hrel", 1], ["cancel", 0]])
    P(5, [["offer", 1], ["offer", 2], ["release", 1], ["release", 2], ["cancel", 0], ["tick", 16]])
    # an exchange left half-way at the cancellation whose client keeps sending: the read that was blocked may deliver one request
    out.append({"id": "drain1", "steps": [["offer", 1], ["release", 1], ["packetc", 1], ["hrel", 1], ["cancel", 0], ["packetc", 1], ["hrel", 1], ["packetc", 1], ["hrel", 1], ["packetc", 1], ["hrel", 1]], "refuse": []})
    out.append({"id": "drain2", "steps": [["offer", 1], ["release", 1], ["offer", 2], ["release", 2], ["packetc", 1], ["hrel", 1], ["packetc", 2], ["cancel", 0], ["hrel", 2], ["packetc", 2], ["hrel", 2], ["packetc", 1], ["hrel", 1], ["packetc", 1], ["hrel", 1], ["packetc", 2], ["hrel", 2]], "refuse": []})
    out.append({"id": "refused1", "steps": [["offer", 1], ["release", 1], ["offer", 2], ["release", 2], ["packet", 2], ["hrel", 2], ["offer", 3], ["release", 3]], "refuse": [1, 3]})
    return out


def collect(ctx, prop):
    quick = ctx.tier == "quick"
    rng = random.Random(ctx.seed * 271 + 17)
    emit = ctx.path("emit-life.csv")
    r0 = mc(ctx, "{1, 2}", 2, emit) if quick else mc(ctx, "{1, 2, 3}", 2, emit)
    scheds = emitted_json_lines(emit)
    os.remove(emit)
    # liveness (no history variable, fairness on goroutine steps, gates and deadlines)
    lcfg = "MCLL.cfg"
    with open(os.path.join(ctx.specdir(), lcfg), "w") as f:
        f.write("SPECIFICATION LiveSpec\nCONSTANTS\n  Conns = {1, 2}\n  MaxPkts = %d\n  Defects = {}\n  Record = FALSE\nPROPERTY ShutdownCompletes\nCHECK_DEADLOCK FALSE\n" % (1 if quick else 2))
    r1 = ctx.tlc_ok("MC_Lifecycle", cfg=lcfg, workers=min(NCPU, 8), heap="8g", timeout=900)
    ctx.log("Lifecycle: safety %d states, liveness %d states, %d schedules emitted" % (r0["distinct"], r1["distinct"], len(scheds)))
    total = len(scheds)
    nmc, nrand = (900, 400) if quick else (40000, 8000)
    if len(scheds) > nmc:
        rng.shuffle(scheds)
        scheds = scheds[:nmc]
    S = [{"id": "mc%d" % i, "steps": [[OPMAP.get(a[0], a[0]), a[1]] for a in s], "refuse": []} for i, s in enumerate(scheds)]
    S += drip_schedules()
    S += [rand_schedule(rng, i) for i in range(nrand)]
    nl = 0
    for s in S:
        if "loader" not in s and rng.random() < 0.25 and nl < 2000:
            s["loader"] = True          # the same schedule with admission through the real loader
            nl += 1
    # the bursts go first: they look at goroutine dumps, and every loader scenario leaves one parked goroutine behind
    # (the loader's update loop has no exit)
    S = burst_schedules(rng, 200 if quick else 1000, 100, 16) + S
    ctl = controls(ctx)
    ind = inductive(ctx, big=not quick)
    ctx.log("Apalache inductive invariant: %s" % ind["status"])
    sf = ctx.path("sched.ndjson")
    with open(sf, "w") as f:
        for s in S:
            f.write(json.dumps(s) + "\n")
    tf = ctx.path("trace.ndjson")
    p = ctx.run_harness(["life", sf, tf], timeout=2400)
    st = json.loads(p.stdout.strip().splitlines()[-1])
    os.makedirs(ctx.path("chunks"), exist_ok=True)
    res = validate_chunks(ctx, "Trace_Lifecycle", split_trace(tf, NCPU * (1 if quick else 3), ctx.path("chunks")), heap="3g")
    byid = {s["id"]: s for s in S}
    found, others, cnt, stuck = [], set(), {}, []
    for rr in res:
        for m in re.finditer(r'"CNT",\s*\[(.*?)\]', rr["out"], re.S):
            for k, v in re.findall(r'(\w+) \|-> (\d+)', m.group(1)):
                cnt[k] = cnt.get(k, 0) + int(v)
        for line in rr["out"].splitlines():
            m = re.match(r'^<<"STUCK", "(.*?)", (\d+)>>$', line)
            if m:
                stuck.append(m.group(1))
            m = re.match(r'^<<"PV", \{(.*?)\}, "(.*?)", (\d+), "(.*?)">>$', line)
            if not m:
                continue
            tags = set(re.findall(r'"(C\d+)"', m.group(1)))
            if prop in tags:
                found.append({"key": "%s:life:%s" % (prop, m.group(4)), "what": "schedule %s: %s violated at event %s" % (m.group(2), prop, m.group(4)),
                              "replay": {"kind": "life", "schedule": byid.get(m.group(2), {})}})
            others |= tags - {prop}
    flagged = {f["replay"]["schedule"].get("id") for f in found}
    unexplained = [s for s in stuck if s not in flagged]
    if unexplained and prop == "C17":
        raise Inconclusive("Serve did not return in schedules %s and no observed event explains it" % unexplained[:5])
    cov = {"states": ctx.tlc_distinct, "transitions": ctx.tlc_states, "traces_validated_against_impl": len(S),
           "evaluations": len(S), "distinct_nontrivial": len({json.dumps(s["steps"]) for s in S if len(s["steps"]) >= 3}),
           "rule": "one evaluation = one schedule of environment actions (offer, goroutine-start gate, packet, partial octet, EOF, handler gate, logical-clock tick, cancel, accept timeout, accept fault) replayed on the real Serve; TLC-emitted schedules (%d of %d) + pacing/fault schedules + seeded random ones; non-trivial = distinct schedule with >= 3 actions" % (len(scheds), total),
           "samples": [S[0], S[-1]], "oracle_counts": cnt, "events": st["events"], "liveness_states": r1["distinct"], "spec_controls": ctl, "inductive_invariant": ind,
           "other_property_observations": sorted(others), "exhaustive": False}
    return cov, ["deadlines are simulated with a logical clock (no real waiting); the literal 10 s / 15 s are only required to be finite and armed at the right points",
                 "goroutine scheduling between two environment actions is left to the Go runtime (the harness waits until every server goroutine is parked)",
                 "liveness is model-checked on Lifecycle.tla under weak/strong fairness; on the real code only the final phase (cancel, open gates, expire deadlines) is exercised"], found


def run(ctx, prop):
    cov, a, found = collect(ctx, prop)
    return conclude(ctx, "model_checking", cov, a, found)


def replay(ctx, prop, obj):
    sf = ctx.path("sched.ndjson")
    sched = obj["schedule"]
    bursty = any(s[0] in ("releaseall", "eofall") for s in sched.get("steps", []))
    with open(sf, "w") as f:
        # a burst depends on how the Go runtime interleaves the finishing goroutines: repeat it
        for k in range(300 if bursty else 1):
            f.write(json.dumps(dict(sched, id="%s#%d" % (sched.get("id"), k))) + "\n")
    tf = ctx.path("trace.ndjson")
    ctx.run_harness(["life", sf, tf])
    if not bursty:
        print(open(tf).read())
    r = ctx.tlc("Trace_Lifecycle", env={"TRACE_FILE": tf})
    hit = False
    for line in r["out"].splitlines():
        if line.startswith('<<"PV"') or line.startswith('<<"STUCK"'):
            print(line)
            hit = hit or ('"PV"' in line and prop in line)
    return 1 if hit else 0
