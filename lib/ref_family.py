"""C07 (reference part) C09 C10 C11 C12 C13 C14 C18: the real reference server (loader, prefix provider, Start /
ASCII / PAP handlers, bcrypt, stringy, local accounter) driven by harness `ref`; traces judged by Trace_Ref.tla
with Handlers.tla (model layer), MayPass (C10), Authz.tla/Regex.tla (C11), Admission.tla (C13)."""
import json, os, random, re, copy, ipaddress
from vf import *
from refgen import *

PV_RE = re.compile(r'^<<"PV", \{(.*?)\}, "(.*?)", (\d+), "(.*?)">>$')
ADDR = {"s1": ["10.1.0.5", "10.1.255.254", "2001:db8:1::7", "::ffff:10.1.3.4"], "s2": ["10.2.0.9"]}
USERS = ["alice", "bob", "carol", "dave", "erin", "frank", "gina", "hank", "ivan", "judy", "mona", "nick", "nobody", ""]


def pw_class(rng, cfg, scope, name, tag):
    """(password, label)"""
    right = pw_of(cfg, scope, name)
    k = rng.random()
    if right and k < 0.45:
        return right
    if k < 0.55:
        return ""
    if k < 0.7:
        other = pw_of(cfg, "s2" if scope == "s1" else "s1", name) or pw_of(cfg, scope, "alice")
        return other or "wrong-%s" % tag
    if k < 0.8:
        return rng.choice(["g2", "g1", "g4"]) + ("-pw-" + tag if tag else "-pw")      # another group's password
    if k < 0.85 and right:
        return right + "x"
    if k < 0.9 and right:
        return right[:-1]
    return "wrong-password-%s" % tag


def login_script(rng, cfg, scope, tag):
    name = rng.choice(USERS)
    pw = pw_class(rng, cfg, scope, name, tag)
    if rng.random() < 0.08:
        pw = list(("Zx9-p%s-" % tag).encode()) + [rng.choice([0xe4, 0xf6, 0x80, 0xff])] + list(b"ss")      # a password with an octet above 0x7f
    elif rng.random() < 0.08:
        # a long pass phrase (past 64 and past bcrypt's 72 octets), a very short one, one with blanks and a line break
        pw = rng.choice(["Lp-%s-" % tag + "correct horse battery staple " * rng.choice([2, 3, 7]), "q%s" % tag[:3], "two words\n%s" % tag, " lead-%s" % tag])
    k = rng.random()
    if k < 0.3:
        minor = 1 if rng.random() < 0.8 else 0
        sc = pap_login(name, pw, minor)
        if rng.random() < 0.15:
            sc.append((cont(pw), 1, [pw] if pw else []))           # a continuation sent to a finished PAP session
        return sc
    if k < 0.85:
        sc = ascii_login(name, pw, user_in_start=rng.random() < 0.5,
                         stop_after=rng.choice([None, None, None, 1, 2]),
                         abort_at=rng.choice([None, None, None, None, 1, 2]))
        r = rng.random()
        if r < 0.08:
            sc[0] = (sc[0][0], 1, sc[0][2])                         # ASCII with minor version 1
        elif r < 0.16:
            p = copy.deepcopy(sc[0][0]); p["atype"] = rng.choice([3, 4, 5, 6]); sc[0] = (p, sc[0][1], sc[0][2])
        elif r < 0.22:
            p = copy.deepcopy(sc[0][0]); p["action"] = rng.choice([2, 4]); sc[0] = (p, sc[0][1], sc[0][2])
        elif r < 0.28:
            p = copy.deepcopy(sc[0][0]); p["service"] = rng.choice([0, 2, 3, 9]); sc[0] = (p, sc[0][1], sc[0][2])
        elif r < 0.33 and len(sc) >= 2:
            sc.insert(1, (start(name), 0, []))                      # a START in the middle of the exchange
        elif r < 0.38:
            sc.append((cont(pw), 0, [pw] if pw else []))           # one more CONTINUE after the end
        return sc
    if k < 0.92:
        # continuation packets sent to a fresh session
        return [(cont(pw or name), 0, [pw] if pw else [])]
    # PAP / CHAP-ish odd starts carrying a password in data
    p = start(name, pw, atype=rng.choice([2, 3, 5, 6]), action=rng.choice([1, 1, 2, 4]), service=rng.choice([1, 2]))
    return [(p, rng.randint(0, 1), [pw] if pw else [])]


def start_sweep_pw(rng, cfg, scope, tag):
    """STARTs of every action x type x service x minor version whose data field (and then the user message) carries a
    pass phrase of varied shape: long, very short, with blanks, with a line break, with octets above 0x7f"""
    out = []
    for action in (1, 2, 4):
        for atype in (1, 2, 3, 4, 5, 6):
            for service in (1, 2, 9):
                for minor in (0, 1):
                    pw = rng.choice(["Lp-%s-" % tag + "correct horse battery staple " * rng.choice([2, 3, 7]), "q%s" % tag[:3], "two words\n%s" % tag,
                                     pw_of(cfg, scope, "alice"), list(("Zx9-p%s-" % tag).encode()) + [0xe4, 0xff] + list(b"ss")])
                    s0 = start("alice", pw, atype=atype, action=action, service=service)
                    out.append([(s0, minor, [pw]), (cont(pw), minor, [pw])])
    return out


def start_sweep(cfg, scope, tag):
    """every action x authentication type x service x minor version START, each followed by the user name and the right
    password: only (LOGIN, ASCII, minor 0) and (LOGIN, PAP, minor 1) may end in PASS"""
    out = []
    pw = pw_of(cfg, scope, "alice")
    for action in (1, 2, 4):
        for atype in (1, 2, 3, 4, 5, 6):
            for service in (0, 1, 2, 3, 9):
                for minor in (0, 1):
                    for inst in (True, False):
                        s0 = start("alice" if inst else "", pw if atype != 1 else "", atype=atype, action=action, service=service)
                        sc = [(s0, minor, [])]
                        if not inst:
                            sc.append((cont("alice"), minor, []))
                        sc.append((cont(pw), minor, []))
                        out.append(sc)
    return out


def rand_text(rng, n, cls="plain"):
    if cls == "plain":
        return "".join(rng.choice("abcdefghijklmnopqrstuvwxyz0123456789-_./ ") for _ in range(n))
    pool = {"pct": ["%", "%d", "%s", "%v", "%!", "100%"], "quote": ['"', "'", "\\", "\\n", "\\u0041"], "ctl": ["\x01", "\x7f", "\t", "\x1b", "\x00"],
            "html": ["<", ">", "&", "<script>"]}[cls]
    return "".join(rng.choice(pool + list("ab ")) for _ in range(n))


def acct_script(rng, cfg, scope, tag):
    name = rng.choice(["alice", "alice", "bob", "carol", "frank", "erin", "kate", "kate", "liam", "mona", "nick", "nobody", ""])
    flags = rng.choice([2, 4, 8, 10, 2, 4, 0, 6, 12, 14, 1, 255])
    cls = rng.choice(["plain", "plain", "pct", "quote", "ctl", "html"])
    nargs = rng.choice([0, 1, 2, 3, 5, 40, 255])
    args = []
    for i in range(nargs):
        ln = rng.choice([0, 1, 5, 12, 30]) if nargs < 40 else rng.choice([0, 3])
        a = rand_text(rng, ln, cls)
        args.append(list(a.encode("latin1"))[:255])
    port = list(rand_text(rng, rng.randint(0, 6), cls).encode("latin1"))
    raddr = list(rand_text(rng, rng.randint(0, 9), cls).encode("latin1"))
    p = acct(name, flags, args, port=port, raddr=raddr, method=rng.choice([0, 1, 6, 16]), priv=rng.choice([0, 1, 15]),
             atype=rng.choice([0, 1, 2, 6]), service=rng.choice([0, 1, 9]))
    if rng.random() < 0.06:
        p["user"] = list(name.encode()) + [rng.randint(128, 255)]
    seq_script = [(p, rng.randint(0, 1), [])]
    if rng.random() < 0.3:
        seq_script.append((copy.deepcopy(p), 0, []))   # a second record on the same session id (seq 3)
    if args and rng.random() < 0.12:
        # the body cut short inside its argument octets (the header announces what is really there): cannot be decoded
        p["cut"] = rng.randint(1, max(1, sum(len(a) for a in args)))
    return seq_script


CMDS = ["show", "configure", "reload", "ping"]
ALPH = ["terminal", "exclusive", "version", "ip", "ip route", "t", "x", "batch", "a", "b"]


def policy_cfg(rng, tag):
    """configuration whose users carry command rules and services (C11)"""
    cfg = base_cfg(rng, tag)

    def rules(n):
        out = []
        for _ in range(n):
            name = rng.choice(CMDS + ["*", " show "])
            out.append({"name": name, "match": [pattern(rng, ALPH) for _ in range(rng.choice([0, 1, 1, 2]))] + ([{"s": "", "ast": {"t": "empty"}}] if rng.random() < 0.05 else []),
                        "action": rng.choice([1, 2, 2])})
        return out

    def services(n):
        out = []
        names = ["shell", "ppp", "exec", "scope-svc", "cmd"]
        for _ in range(n):
            nm = rng.choice(names)
            match = []
            if rng.random() < 0.5:
                match.append({"name": rng.choice(["scope", "protocol", "service"]), "values": [rng.choice(["s1", "s2", "ip", "shell"])], "opt": False})
            sets = [{"name": rng.choice(["priv-lvl", "shell:roles", "idletime", "x"]), "values": [rng.choice(["15", "1", "admin", "network-admin vdc-admin", "7"])],
                     "opt": rng.random() < 0.3} for _ in range(rng.randint(1, 2))]
            if rng.random() < 0.06:
                # a value that no reply argument can carry (name=value longer than 255 octets): the request still gets one reply
                sets[0]["values"] = ["role-" + "abcdefghij" * rng.choice([25, 30, 60])]
            out.append({"name": nm, "match": match, "set": sets, "opt": rng.random() < 0.3})
        return out
    def shadow_rules():
        # a deny rule whose pattern needs whole-string / longest-alternative matching, shadowing a later permit
        w = rng.sample(ALPH, 2)
        shapes = [{"t": "alt", "l": word(w[0][:1]), "r": word(w[0])},
                  {"t": "alt", "l": word(w[0]), "r": {"t": "cat", "l": word(w[0]), "r": {"t": "cat", "l": lit(32), "r": word(w[1])}}},
                  {"t": "cat", "l": word(w[0]), "r": {"t": "star", "r": {"t": "any"}, "lazy": True}},
                  {"t": "alt", "l": word(w[0]), "r": word(w[1])}]
        a = rng.choice(shapes)
        cmd = rng.choice(CMDS)
        first = {"name": cmd, "match": [{"s": render(a), "ast": strip_lazy(a)}], "action": 1}
        later = rng.choice([{"name": "*", "match": [], "action": 2}, {"name": cmd, "match": [], "action": 2}])
        return [first, later]
    for u in cfg["users"]:
        u["commands"] = shadow_rules() if rng.random() < 0.3 else rules(rng.randint(0, 3))
        u["services"] = services(rng.randint(0, 2))
        for g in u["groups"]:
            g["commands"] = rules(rng.randint(0, 2))
            g["services"] = services(rng.randint(0, 1))
    return cfg


def directed_author(rng, cfg, scope):
    """a request derived from the policy itself: aims at a rule / service of a user of the scope"""
    cands = [u for u in cfg["users"] if scope in u["scopes"]]
    u = rng.choice(cands)
    cmds = u["commands"] + [c for g in u["groups"] for c in g["commands"]]
    svcs = u["services"] + [s for g in u["groups"] for s in g["services"]]
    if cmds and (rng.random() < 0.6 or not svcs):
        rule = rng.choice(cmds)
        cmd = rule["name"].strip()
        if cmd == "*":
            cmd = rng.choice(CMDS)
        target = None
        pats = [p for p in rule["match"] if p["ast"]["t"] != "invalid"]
        if pats and rng.random() < 0.8:
            target = sample(rng, rng.choice(pats)["ast"])
        if target is None:
            target = list(" ".join(rng.choice(ALPH) for _ in range(rng.randint(0, 2))).encode())
        k = rng.random()
        if k < 0.15 and target:
            target = target[:-1]
        elif k < 0.3:
            target = target + list(rng.choice([b" ;", b"x", b" reload", b" "]))
        elif k < 0.4:
            target = list(rng.choice([b"x ", b"; "])) + target
        words = bytes(target).split(b" ") if target else []
        if words and rng.random() < 0.15:
            j = rng.randrange(len(words))
            words = words[:j + 1] + [words[j]] * rng.choice([1, 1, 2]) + words[j + 1:]      # the same word again (ip route 0.0.0.0 0.0.0.0 ...)
        args = [list(b"service=shell"), list(b"cmd=" + cmd.encode())] + [list(b"cmd-arg=" + w) for w in words]
        if rng.random() < 0.3:
            args.append(list(b"cmd-arg=<cr>"))
        return author(u["name"], args)
    if svcs:
        s = rng.choice(svcs)
        sep = rng.choice(["=", "=", "*"])
        args = [("service" + sep + s["name"]).encode()]
        for m in s["match"]:
            val = m["values"][0] if m["values"] and rng.random() < 0.7 else rng.choice(["s1", "s2", "ip", "nope"])
            if m["name"] == "scope" and rng.random() < 0.5:
                continue        # leave it to the connection's own scope
            args.append((m["name"] + "=" + val).encode())
        if rng.random() < 0.35:
            args.insert(rng.randint(0, len(args)), ("scope=" + rng.choice(["s1", "s2"])).encode())   # the client claims a scope itself
        if rng.random() < 0.2:
            args.append(rng.choice([b"protocol=ip", b"protocol*ip", b"cmd*", b"priv-lvl=1"]))
        if rng.random() < 0.08:
            # many distinct arguments that all name the service (as attribute value): the reply must still be one packet
            n = rng.choice([40, 100, 128, 200, 250 - len(args)])
            args += [("k%d%s%s" % (i, rng.choice("=*"), s["name"].strip())).encode() for i in range(n)]
        return author(u["name"], [list(a) for a in args][:255])
    return author(u["name"], [list(b"service=shell"), list(b"cmd=show")])


def many_args_scenarios(rng, tag, n):
    """session authorization requests with very many distinct arguments that all name one configured service whose
    conditions the request satisfies: whatever the reply is built from, the request must get exactly one reply"""
    out = []
    tries = 0
    while len(out) < n and tries < 50 * n:
        tries += 1
        cfg = policy_cfg(rng, tag)
        cands = [(u, s) for u in cfg["users"] if "s1" in u["scopes"] for s in u["services"] + [s for g in u["groups"] for s in g["services"]]]
        if not cands:
            continue
        u, s = rng.choice(cands)
        sep = rng.choice(["=", "*"])
        args = [("service" + sep + s["name"]).encode()]
        for m in s["match"]:
            if m["name"] == "scope":
                continue
            if m["values"]:
                args.append((m["name"] + "=" + m["values"][0]).encode())
        k = rng.choice([60, 100, 128, 129, 200, 254 - len(args)])
        args += [("k%d%s%s" % (i, rng.choice("=*"), s["name"].strip())).encode() for i in range(k)]
        p = author(u["name"], [list(a) for a in args][:255])
        steps = session_steps(1, 0, [(p, 0, [])]) + session_steps(1, 1, [(author(u["name"], [list(b"service=shell"), list(b"cmd=show")]), 0, [])])
        out.append({"id": "manyargs-%d" % len(out), "cfg": cfg, "conns": [{"c": 1, "addr": "10.1.0.5"}], "steps": steps, "iso": False, "log": False})
    return out


def reuse_ref_scenarios(rng, tag, n):
    """an ASCII login left at a prompt while other sessions of the connection complete and their ids are used again"""
    out = []
    for i in range(n):
        cfg = base_cfg(rng, tag)
        pa, pb = pw_of(cfg, "s1", "alice"), pw_of(cfg, "s1", "bob")
        a = session_steps(1, 0, ascii_login("alice", pa, user_in_start=rng.random() < 0.5))
        k = rng.randint(1, len(a) - 1)                       # packets of the login sent before the others
        once = lambda: rng.choice([pap_login("bob", pb), pap_login("bob", "bad-" + tag),
                                   [(acct("alice", 2, [list(b"task_id=7")]), 0, [])],
                                   [(author("alice", [list(b"service=shell"), list(b"cmd=show")]), 0, [])]])
        mid = []
        for _ in range(rng.randint(2, 3)):
            mid += session_steps(1, 1, once())               # completes; the same id again next time
        steps = a[:k] + mid + a[k:] + session_steps(1, 0, once())
        out.append({"id": "reuse-%d" % i, "cfg": cfg, "conns": [{"c": 1, "addr": "10.1.0.5"}], "steps": steps, "iso": False, "log": False})
    return out


def acct_seq_scenarios(rng, tag, n):
    """accounting records of every flag value as first (seq 1) and as later (seq 3, 5) record of a session"""
    cfg = base_cfg(rng, tag)
    flags = [2, 4, 8, 10, 0, 6, 12, 14, 1]
    pairs = [(a, b) for a in flags for b in flags]
    rng.shuffle(pairs)
    out = []
    for i, (f1, f2) in enumerate(pairs[:n]):
        u = rng.choice(["alice", "alice", "frank", "kate", "carol"])
        rec = lambda f: (acct(u, f, [list(b"task_id=%d" % rng.randint(1, 99)), list(b"elapsed=3")]), 0, [])
        script = [rec(f1), rec(f2)] + ([rec(rng.choice(flags))] if rng.random() < 0.3 else [])
        steps = session_steps(1, i % 4, script, fl=rng.choice([0, 1])) + session_steps(1, (i + 1) % 4, [rec(2)])
        out.append({"id": "acctseq-%d" % i, "cfg": cfg, "conns": [{"c": 1, "addr": "10.1.0.5"}], "steps": steps, "iso": False, "log": False})
    return out


def big_record_scenarios(rng, tag, n):
    """accounting requests near the size limit of a packet whose record is several times larger than the request
    (characters the JSON encoder writes as six: < > &; as two: quotes, backslashes, control characters), sent in clear"""
    cfg = base_cfg(rng, tag)
    shapes = [(90, 255, "<"), (255, 250, "&"), (255, 255, "a"), (130, 255, '"'), (87, 255, ">"), (200, 255, "\\"), (255, 200, "\x01"),
              (100, 255, "<&>"), (255, 255, "%"), (64, 255, "<")]
    out = []
    for i in range(n):
        na, ln, chars = shapes[i % len(shapes)]
        args = [[ord(chars[(j + k) % len(chars)]) for k in range(ln)] for j in range(na)]
        u = rng.choice(["alice", "frank"])
        script = [(acct(u, rng.choice([2, 4]), args), 0, [])]
        steps = session_steps(1, i % 4, script, fl=1) + session_steps(1, (i + 1) % 4, [(acct(u, 2, [list(b"task_id=1")]), 0, [])], fl=1)
        out.append({"id": "bigrec-%d" % i, "cfg": cfg, "conns": [{"c": 1, "addr": "10.1.0.5"}], "steps": steps, "iso": False, "log": False})
    return out


def long_name_scenarios(rng, tag, n):
    """ASCII logins whose user name arrives in a CONTINUE and is close to the largest user message a packet can carry:
    the reply that quotes the name may not fit a server message any more (found by the round-8 sub-agent of C07)"""
    cfg = base_cfg(rng, tag)
    out = []
    for i, ln in enumerate([65520, 65500, 65513, 65531, 65512, 40000][:n]):
        name = "".join(rng.choice("abcdefghij") for _ in range(ln))
        script = ascii_login(name, "pw-" + tag)
        steps = session_steps(1, i % 4, script, fl=1) + session_steps(1, (i + 1) % 4, pap_login("alice", "alice-pw-" + tag), fl=1)
        out.append({"id": "longname-%d" % i, "cfg": cfg, "conns": [{"c": 1, "addr": "10.1.0.5"}], "steps": steps, "iso": False, "log": False})
    return out


def span_nodest_scenarios(rng, tag, n):
    """a scope whose span handler has no destination option: the handler factory builds nothing for it (the oracles see a
    scope without handler); clients of that scope and, afterwards, of the other scope (found by the round-9 sub-agent of C14)"""
    out = []
    for i in range(n):
        cfg = base_cfg(rng, tag)
        k = i % 2
        cfg["secrets"][k]["nohandler"] = True
        cfg["secrets"][k]["span"] = {"dest": "none", "pt": 0, "ra": "", "sw": ""}
        a1, a2 = ("10.1.0.5", "10.2.0.5") if k == 0 else ("10.2.0.5", "10.1.0.5")
        steps = session_steps(1, 0, pap_login("alice", "alice-pw-" + tag), fl=1) + session_steps(2, 1, pap_login("alice", "x"), fl=1)
        out.append({"id": "spannodest-%d" % i, "cfg": cfg, "conns": [{"c": 1, "addr": a1}, {"c": 2, "addr": a2}], "steps": steps, "iso": False, "log": False})
    return out


GOODLINE = "PROXY TCP4 192.0.2.7 192.0.2.1 40000 49\r\n\x00"
HOSTILE_LINES = ["PROXY TCP4 192.0.2.7", "PROXY tcp6 a b c", "PROXY TCP4", "PROXY tcp 1 2", "PROXY UNKNOWN", "PROXY UNKNOWN a b", "PROXY", "PROXY ", "PROXY  ",
                 "PROXY TCP4 1 2 3 4 5 6 7", "PROXY TCP4 192.0.2.7 192.0.2.1 40000", "PROXY TCP4 192.0.2.7 192.0.2.1 x y", "PROXY TCP4  192.0.2.1 40000 49",
                 " PROXY TCP4 a b 1 2", "proxy tcp4 a b 1 2", "PROXYTCP4", "", "\r\n", "PROXY TCP4 " + "9" * 300 + " b 1 2", "PROXY \t TCP4"]


def proxy_hostile_scenarios(rng, tag, n):
    """the reference wiring on a server in proxy mode: a client with well-formed PROXY lines, then a client whose line is
    hostile (too few / too many fields, unknown protocol, empty), then the first kind of client again (other clients keep
    being served; the process survives). Found missing by the round-9 sub-agent of C14."""
    out = []
    for i in range(n):
        cfg = base_cfg(rng, tag)
        line = HOSTILE_LINES[i % len(HOSTILE_LINES)] + rng.choice(["\r\n\x00", "\x00", "\r\n\x00"])
        good = session_steps(1, 0, pap_login("alice", "alice-pw-" + tag), fl=1)
        bad = session_steps(2, 1, pap_login("alice", "alice-pw-" + tag), fl=1) + session_steps(2, 2, ascii_login("frank", "x", stop_after=1), fl=1)
        again = session_steps(3, 3, pap_login("frank", "frank-pw-" + tag), fl=1)
        for st in good + again:
            st["pre"] = GOODLINE
        for st in bad:
            st["pre"] = line
        out.append({"id": "pxline-%d" % i, "cfg": cfg, "conns": [{"c": 1, "addr": "10.1.0.5"}, {"c": 2, "addr": "10.1.0.6"}, {"c": 3, "addr": "10.1.0.7"}],
                    "steps": good + bad + again, "iso": False, "log": False, "proxy": True})
    return out


def repeated_rule_scenarios(rng, tag, n):
    """command rules that are met again and again by the same request: a rule whose only pattern does not compile (the
    request is refused every time), and rules whose verdict depends on a word being there twice"""
    out = []
    for i in range(n):
        cfg = base_cfg(rng, tag)
        for u in cfg["users"]:
            u.setdefault("commands", []); u.setdefault("services", [])
            for g in u["groups"]:
                g.setdefault("commands", []); g.setdefault("services", [])
        bad = rng.choice(["(version|inventory", "[a", "a**", "*a", "a{2,1}"])
        alice = [u for u in cfg["users"] if u["name"] == "alice" and "s1" in u["scopes"]][0]
        if i % 2 == 0:
            alice["commands"] = [{"name": "show", "match": [{"s": bad, "ast": {"t": "invalid", "s": bad}}], "action": 2},
                                 {"name": "ping", "match": [], "action": 2}]
            reqs = [["service=shell", "cmd=show", "cmd-arg=version"], ["service=shell", "cmd=ping", "cmd-arg=10.1.1.1"], ["service=shell", "cmd=show", "cmd-arg=inventory"]]
        else:
            w = rng.choice(["0.0.0.0", "10.1.1.1", "x"])
            two = {"t": "cat", "l": word(w), "r": {"t": "cat", "l": lit(32), "r": {"t": "cat", "l": word(w), "r": {"t": "star", "r": {"t": "any"}}}}}
            one = {"t": "cat", "l": word(w), "r": {"t": "star", "r": {"t": "any"}}}
            alice["commands"] = [{"name": "route", "match": [{"s": render(two), "ast": two}], "action": 1},
                                 {"name": "route", "match": [{"s": render(one), "ast": one}], "action": 2}]
            reqs = [["service=shell", "cmd=route", "cmd-arg=" + w, "cmd-arg=" + w, "cmd-arg=gw"], ["service=shell", "cmd=route", "cmd-arg=" + w, "cmd-arg=gw"],
                    ["service=shell", "cmd=route", "cmd-arg=" + w, "cmd-arg=" + w]]
        steps = []
        for k in range(3):
            for j, a in enumerate(reqs):
                steps += session_steps(1, (k + j) % 4, [(author("alice", [list(x.encode()) for x in a]), 0, [])])
        steps += [dict(st, c=2) for st in steps[:len(reqs)]]
        out.append({"id": "rules-%d" % i, "cfg": cfg, "conns": [{"c": 1, "addr": "10.1.0.5"}, {"c": 2, "addr": "10.1.0.6"}], "steps": steps, "iso": False, "log": False})
    return out


def space_at_separator(rng, p):
    """white space right next to the = / * separator of one argument (cmd= reload, cmd-arg =version, service= shell)"""
    args = p.get("args") or []
    idx = [i for i, a in enumerate(args) if (61 in a or 42 in a)]
    if not idx:
        return p
    i = rng.choice(idx)
    a = list(args[i])
    k = min([a.index(c) for c in (61, 42) if c in a])
    ws = rng.choice([[32], [32], [9], [32, 32]])
    a = a[:k + 1] + ws + a[k + 1:] if rng.random() < 0.7 else a[:k] + ws + a[k:]
    if len(a) <= 255:
        args[i] = a
    return p


def author_script(rng, cfg, scope, tag):
    if rng.random() < 0.6:
        p = directed_author(rng, cfg, scope)
        if rng.random() < 0.1:
            p = space_at_separator(rng, p)
        return [(p, rng.randint(0, 1), [])]
    name = rng.choice(["alice", "bob", "frank", "carol", "erin", "nobody"])
    if rng.random() < 0.6:
        cmd = rng.choice(CMDS + ["sho"])
        words = [rng.choice(ALPH + [";", "reload", "xx", " "]) for _ in range(rng.randint(0, 3))]
        args = ["service=shell", "cmd=" + cmd] + ["cmd-arg=" + w for w in words]
        r = rng.random()
        if r < 0.3:
            args.append("cmd-arg=<cr>")
        elif r < 0.36:
            args.insert(len(args) - 1 if len(args) > 2 else len(args), "cmd-arg=<CR>")
        if rng.random() < 0.1:
            rng.shuffle(args)
        if rng.random() < 0.1:
            args = [" " + a + " " for a in args]
    else:
        svc = rng.choice(["shell", "ppp", "exec", "scope-svc"])
        args = [rng.choice(["service=", "service*"]) + svc]
        if rng.random() < 0.5:
            args.append(rng.choice(["cmd=", "cmd*", "protocol=ip", "protocol*ip", "scope=s2", "scope=s1", "priv-lvl=1"]))
        if rng.random() < 0.2:
            args.append("protocol=" + rng.choice(["ip", "shell", "exec"]))
    p = author(name, [list(a.encode()) for a in args], method=rng.choice([1, 6]), atype=rng.choice([0, 1, 2]))
    if rng.random() < 0.05:
        p["user"] = list(name.encode()) + [200]
    return [(p, rng.randint(0, 1), [])]


def junk_script(rng):
    k = rng.random()
    if k < 0.4:
        return [(raw([rng.randint(0, 255) for _ in range(rng.randint(0, 30))]), rng.randint(0, 1), [])]
    if k < 0.7:
        b = [1, 1, 1, 1, 3, 0, 0, 0] + [rng.randint(128, 255) for _ in range(3)]       # START with a non-ASCII user
        return [(raw(b), 0, [])]
    return [(raw([0, 0, 0, 0, 0]), 0, [])]


POOL4 = ["10.0.0.0/8", "10.1.0.0/16", "10.1.2.0/24", "10.1.2.128/25", "10.66.0.0/15", "192.168.0.0/16", "172.16.0.0/12", "10.1.2.3/32", "0.0.0.0/0"]
POOL6 = ["2001:db8::/32", "2001:db8:1::/48", "2001:db8:1:2::/64", "fd00::/8", "2001:db8:1:2::5/128"]


def addr_candidates(rng, prefixes):
    """boundary and interior addresses of the given prefixes, in 4-octet, 16-octet-mapped and IPv6 forms"""
    out = []
    for p in prefixes:
        n = ipaddress.ip_network(p, strict=False)
        first, last = int(n.network_address), int(n.broadcast_address)
        top = (1 << n.max_prefixlen) - 1
        for v in {first, last, max(0, first - 1), min(top, last + 1), rng.randint(first, last)}:
            a = ipaddress.ip_address(v) if n.version == 6 else ipaddress.IPv4Address(v)
            s = str(a)
            if n.version == 4:
                out.append(s)
                out.append("::ffff:" + s)       # the 16-octet form a dual-stack listener reports
            else:
                out.append(s)
    return out


def admission_scenario(rng, idx, tag):
    nsec = rng.randint(1, 3)
    secrets = []
    names = ["sa", "sb", "sc"]
    for k in range(nsec):
        ps = rng.sample(POOL4, rng.randint(1, 2)) + (rng.sample(POOL6, 1) if rng.random() < 0.5 else [])
        secrets.append(secret(names[k], "key-%s-%s" % (names[k], tag), ps, nohandler=rng.random() < 0.05))
    pwx = lambda u, s: "%s-%s-pw-%s" % (u, s, tag)
    users = []
    for u in ["u1", "u2", "u3", "u4"]:
        k = rng.random()
        if k < 0.3:
            # one entry per scope, each with its own credential
            for s in rng.sample(names[:nsec], rng.randint(1, nsec)):
                users.append(user(u, [s], auth(pwx(u, s)), acct=rng.random() < 0.5))
        elif k < 0.6:
            ss = rng.sample(names[:nsec], rng.randint(1, nsec))
            users.append(user(u, ss, auth(pwx(u, "all"))))
        elif k < 0.8:
            users.append(user(u, [rng.choice(names[:nsec])], auth(pwx(u, "one"))))
        else:
            users.append(user(u, ["nowhere"], auth(pwx(u, "none"))))
    rng.shuffle(users)
    allp = [p["s"] for s in secrets for p in s["prefixes"]]
    deny = [prefix(p) for p in rng.sample(POOL4 + POOL6, rng.choice([0, 0, 1, 2]))]
    allow = [prefix(p) for p in rng.sample(POOL4 + POOL6, rng.choice([0, 0, 0, 1, 2]))]
    NESTED = [("10.1.0.0/24", "10.1.0.0/16"), ("10.0.0.0/16", "10.0.0.0/8"), ("192.168.0.0/30", "192.168.0.0/16"), ("2001:db8::/64", "2001:db8::/32"),
              ("10.1.2.0/25", "10.1.2.0/24")]
    if rng.random() < 0.2:
        # two prefixes of one list that share their network address, the narrow one first or last
        pair = list(rng.choice(NESTED))
        if rng.random() < 0.3:
            pair.reverse()
        if rng.random() < 0.6:
            deny = [prefix(x) for x in pair] + deny[:1]
        else:
            allow = [prefix(x) for x in pair] + allow[:1]
    if len(secrets) >= 2 and rng.random() < 0.1:
        secrets[rng.randrange(len(secrets) - 1)]["key"] = ""           # a scope (not the last) whose shared secret is the empty string
    cfg = {"secrets": secrets, "users": users, "deny": deny, "allow": allow}
    cands = addr_candidates(rng, allp + [p["s"] for p in deny + allow])
    rng.shuffle(cands)
    conns, steps = [], []
    for c, a in enumerate(cands[:rng.randint(3, 7)], start=1):
        conns.append({"c": c, "addr": a})
        # probe the user set the connection got: PAP logins with the credential of every scope
        for u in rng.sample(["u1", "u2", "u3", "u4"], 2):
            pws = sorted({x["auth"]["pw"] for x in users if x["name"] == u and x["auth"]["k"] == "bcrypt"})
            pw = rng.choice(pws) if pws else "nope-" + tag
            steps.append(step(c, len(steps) % 4, 1, start(u, pw, atype=2), minor=1, fl=1))
    sc = {"id": "c13-%d" % idx, "cfg": cfg, "conns": conns, "steps": steps, "iso": False, "log": False}
    k = rng.random()
    if k < 0.3:
        # the loader was given another configuration before this one: what is in force must be THIS one's lists and order
        pre = copy.deepcopy(cfg)
        kk = rng.random()
        if kk < 0.5:
            # same secrets and users, other deny / allow lists (none, or lists that would admit / refuse other addresses)
            pre["deny"] = [prefix(x) for x in rng.sample(POOL4 + POOL6, rng.choice([0, 1, 2]))]
            pre["allow"] = [prefix(x) for x in rng.sample(POOL4 + POOL6, rng.choice([0, 0, 1, 2]))]
        elif kk < 0.8:
            pre["secrets"] = list(reversed(pre["secrets"]))
            pre["deny"], pre["allow"] = [], []
        else:
            pre["users"] = pre["users"][:1]
            pre["deny"] = [prefix(rng.choice(POOL4))]
        sc["pre"] = [pre] if rng.random() < 0.8 else [pre, copy.deepcopy(cfg), pre]
    return sc


def dns_scenarios(rng, tag, n):
    """growth: secret configurations of the DNS provider type (alone or mixed with prefix ones); connections are only
    admitted or refused, nothing is fed (divergence-only comparison with Admission!AdmitNamed)"""
    names = ["localhost", "localhost.", "vm", "runsc", "Localhost", "router1.example.net", "vm."]
    out = []
    for i in range(n):
        cfg = base_cfg(rng, tag)
        secs = []
        for j in range(rng.randint(1, 3)):
            if rng.random() < 0.7:
                hosts = rng.sample(names, rng.randint(1, 3))
                secs.append({"name": "d%d" % j, "nameb": "d%d" % j, "key": "dns-key-%d-%s" % (j, tag), "prefixes": [], "nohandler": False,
                             "kind": "dns", "hosts": hosts, "hostsb": [list(h.encode()) for h in hosts]})
            else:
                secs.append(dict(secret("p%d" % j, "pfx-key-%d-%s" % (j, tag), [rng.choice(["127.0.0.0/8", "127.0.0.2/32", "10.1.0.0/16"])])))
        for u in cfg["users"]:
            u["scopes"] = [s_["name"] for s_ in secs]
        cfg["secrets"] = secs
        if rng.random() < 0.2:
            cfg["deny"] = [prefix("127.0.0.2/32")]
        conns = [{"c": k + 1, "addr": a} for k, a in enumerate(rng.sample(["127.0.0.1", "127.0.0.2", "10.1.0.5", "::1"], 3))]
        out.append({"id": "dns-%d" % i, "cfg": cfg, "conns": conns, "steps": [], "iso": False, "log": False})
    return out


def scenario(rng, idx, prop, tag):
    if prop == "C13":
        return admission_scenario(rng, idx, tag)
    cfg = policy_cfg(rng, tag) if prop in ("C11",) or (prop in ("C07", "C14", "C09", "C06") and rng.random() < 0.5) else base_cfg(rng, tag)
    scope = "s1" if rng.random() < 0.8 else "s2"
    addr = rng.choice(ADDR[scope])
    nsess = {"C09": rng.choice([2, 2, 3]), "C10": rng.choice([1, 1, 2]), "C18": rng.choice([1, 2])}.get(prop, rng.choice([1, 2, 3]))
    sessions = []
    for s in range(nsess):
        k = rng.random()
        if prop == "C12":
            script, ty = acct_script(rng, cfg, scope, tag), 0
        elif prop == "C11":
            script, ty = author_script(rng, cfg, scope, tag), 0
        elif prop in ("C10", "C18"):
            script, ty = (login_script(rng, cfg, scope, tag), 0) if k < 0.9 else (junk_script(rng), 1)
        else:
            if k < 0.5:
                script, ty = login_script(rng, cfg, scope, tag), 0
            elif k < 0.65:
                script, ty = acct_script(rng, cfg, scope, tag), 0
            elif k < 0.85:
                script, ty = author_script(rng, cfg, scope, tag), 0
            else:
                script, ty = junk_script(rng), rng.randint(1, 3)
        fl = 1 if rng.random() < 0.85 else 0
        if rng.random() < 0.1:
            fl |= 4
        sessions.append(session_steps(1, s, script, fl=fl, ty=ty))
        if script and script[0][0]["k"] == "author" and len(sessions) < 4 and rng.random() < 0.4:
            others = [u["name"] for u in cfg["users"] if scope in u["scopes"] and u["name"] != script[0][0]["user"]]
            if others:
                p2 = copy.deepcopy(script[0][0])
                p2["user"] = rng.choice(others)
                sessions.append(session_steps(1, len(sessions), [(p2, script[0][1], [])], fl=fl, ty=ty))
    conns = [{"c": 1, "addr": addr}]
    steps = interleave(rng, sessions)
    if prop == "C09" and rng.random() < 0.35:
        # the same session ids on a second connection (concurrently open, or after the first one closed)
        other = [dict(st, c=2) for st in interleave(rng, sessions)]
        conns.append({"c": 2, "addr": rng.choice(ADDR[scope])})
        if rng.random() < 0.5:
            cut = rng.randint(1, len(steps))
            steps = steps[:cut] + [{"c": 1, "sid": 0, "seq": 0, "ty": 0, "min": 0, "fl": 0, "p": raw([]), "eof": True, "pws": []}] + other
        else:
            steps = interleave(rng, [steps, other])
    if prop in ("C14", "C11", "C07") and len(conns) == 1 and rng.random() < (0.4 if prop == "C14" else 0.2):
        # everything once more on a second connection: whatever the first pass left behind in the process (compiled
        # patterns, decisions, per-user handler state) is met again by the same requests
        conns.append({"c": 2, "addr": rng.choice(ADDR[scope])})
        steps = steps + [dict(st, c=2) for st in steps]
    if prop == "C14" and rng.random() < 0.5:
        # hostile octet streams after (or instead of) well-formed traffic
        k = rng.random()
        if k < 0.3:
            junk = [rng.randint(0, 255) for _ in range(rng.choice([1, 5, 11, 12, 13, 40, 300]))]
        elif k < 0.5:
            junk = [0xc0, rng.randint(0, 4), rng.randint(0, 255), rng.randint(0, 255), 1, 2, 3, 4, 0, rng.choice([0, 1]), rng.choice([0, 1, 255]), rng.randint(0, 255)] + [rng.randint(0, 255) for _ in range(rng.randint(0, 20))]
        elif k < 0.7:
            junk = list(b"PROXY TCP4 10.0.0.1 10.0.0.2 1 2\r\n\x00") + [rng.randint(0, 255) for _ in range(10)]
        else:
            body = [255] * rng.choice([5, 8, 9, 20])
            junk = [0xc0 | rng.randint(0, 1), rng.randint(1, 3), rng.choice([1, 3, 255]), rng.choice([0, 1]), 9, 9, 9, 9, 0, 0, 0, len(body)] + body
        p = raw(junk); p["k"] = "bytes"
        steps.insert(rng.randint(0, len(steps)), {"c": 1, "sid": 0, "seq": 0, "ty": 0, "min": 0, "fl": 0, "p": p, "pws": []})
    sc = {"id": "%s-%d" % (prop.lower(), idx), "cfg": cfg, "conns": conns, "steps": steps,
          "iso": prop == "C09" or rng.random() < 0.1, "log": prop in ("C18",) or rng.random() < 0.15}
    spanify(sc, prop, idx, tag)
    return sc


SPAN_SHARE = {"C06": 0.12, "C07": 0.15, "C09": 0.12, "C10": 0.08, "C12": 0.08, "C14": 0.15, "C18": 0.08, "C11": 0.05}


def spanify(sc, prop, idx, tag):
    """A share of the scenarios runs with the SPAN handler on one or both scopes (`all loadable configurations`): the
    listed predicates stay as they are, Span.tla states what the mirror destination must receive (divergence only).
    Uses its own random stream so that the scenarios themselves are the ones generated before this class existed."""
    r2 = random.Random("span-%s-%d-%s" % (prop, idx, tag))
    if r2.random() >= SPAN_SHARE.get(prop, 0):
        return
    sc["cfg"] = copy.deepcopy(sc["cfg"])
    raddrs = sorted({bytes(st["p"]["raddr"], "latin1") if isinstance(st["p"].get("raddr"), str) else bytes(st["p"].get("raddr") or b"")
                     for st in sc["steps"] if isinstance(st.get("p"), dict)} - {b""})
    for s in sc["cfg"]["secrets"]:
        if r2.random() < 0.8:
            k = r2.random()
            ra = ""
            if raddrs and r2.random() < 0.3:
                ra = r2.choice(raddrs).decode("latin1") if r2.random() < 0.6 else "203.0.113.77"
            s["span"] = {"dest": "refused" if k < 0.15 else "ok", "pt": r2.choice([0, 0, 0, 1, 2, 3]), "ra": ra,
                         "sw": r2.choice(["", "", "", "match", "mismatch"])}
    sc["id"] += "-span"


def overlap_c09(rng, tag, n):
    """two connections; a request of the first is parked inside its handler (at a logger call) while the second
    connection runs whole exchanges with the same session ids"""
    cfg = base_cfg(rng, tag)
    out = []
    for i in range(n):
        users = rng.sample(["alice", "bob", "frank", "carol", "nobody"], 2)
        scr = []
        for u in users:
            pw = pw_of(cfg, "s1", u) or "wrong-" + tag
            scr.append(rng.choice([ascii_login(u, pw), ascii_login(u, pw, user_in_start=True), pap_login(u, pw), ascii_login(u, "bad-" + tag)]))
        a = session_steps(1, 0, scr[0])
        b = session_steps(2, 0, scr[1])       # same session id on the other connection
        k = rng.randrange(len(a))
        a[k]["hold"] = True
        steps = a[:k + 1] + b + a[k + 1:]
        out.append({"id": "c09ov-%d" % i, "cfg": cfg, "conns": [{"c": 1, "addr": "10.1.0.5"}, {"c": 2, "addr": "10.1.0.6"}], "steps": steps,
                    "iso": True, "log": False, "overlap": True})
    return out


def overlap_c12(rng, tag, n):
    """two or three connections deliver accounting records at the same time: the first one's handler is parked inside the
    sink (before its record is formatted) while the others run; acknowledged requests and sink records are compared as bags"""
    cfg = base_cfg(rng, tag)
    out = []
    fileusers = ["alice", "bob", "frank", "judy", "ivan"]
    for i in range(n):
        u1 = rng.choice(fileusers)
        others = [u1 if rng.random() < 0.7 else rng.choice(fileusers + ["carol", "nobody"]) for _ in range(rng.choice([1, 1, 2]))]

        def rec(u, long):
            nargs = rng.choice([3, 5, 8]) if long else rng.choice([0, 1, 2])
            args = [list(("k%d=%s" % (j, rand_text(rng, rng.choice([8, 20]) if long else rng.choice([0, 3]), "plain"))).encode("latin1")) for j in range(nargs)]
            return acct(u, rng.choice([2, 4, 8]), args, port=list(b"tty%d" % rng.randint(0, 9)), raddr=list(b"192.0.2.%d" % rng.randint(1, 250)))
        # the held record is the longer one as often as not (an encoder reusing storage only shows with a shorter successor)
        long1 = rng.random() < 0.7
        a = session_steps(1, 0, [(rec(u1, long1), 0, [])])
        a[0]["holdsink"] = True
        steps = list(a)
        conns = [{"c": 1, "addr": "10.1.0.5"}]
        for k, u in enumerate(others):
            c = 2 + k
            conns.append({"c": c, "addr": "10.1.0.%d" % (6 + k)})
            steps += session_steps(c, rng.choice([0, 1]), [(rec(u, not long1 and rng.random() < 0.5), 0, [])])
        out.append({"id": "c12ov-%d" % i, "cfg": cfg, "conns": conns, "steps": steps, "iso": False, "log": False, "overlap": True})
    return out


def c19_ref_scenarios(rng, tag, n):
    """clients of two scopes with different shared secrets: requests obfuscated with the scope's own key, with the OTHER
    scope's key, and with a key nobody configured (the client key is explicit: `ckey`)"""
    out = []
    keys = {"s1": "key-of-scope-one", "s2": "key-of-scope-two"}
    people = {"s1": ["alice", "bob", "frank", "carol"], "s2": ["erin", "frank", "alice"]}
    for i in range(n):
        cfg = base_cfg(rng, tag)
        if rng.random() < 0.4:
            cfg["secrets"] = list(reversed(cfg["secrets"]))         # the prefixes are disjoint: the order must not matter
        conns, steps = [], []
        for c in range(1, rng.randint(2, 4) + 1):
            scope = rng.choice(["s1", "s1", "s2"])
            conns.append({"c": c, "addr": rng.choice(ADDR[scope])})
            other = keys["s2" if scope == "s1" else "s1"]

            def script():
                u = rng.choice(people[scope])
                pw = pw_of(cfg, scope, u) or "wrong-" + tag
                k = rng.random()
                if k < 0.35:
                    return pap_login(u, pw)
                if k < 0.55:
                    return ascii_login(u, pw, user_in_start=rng.random() < 0.5)
                if k < 0.8:
                    return [(author(u, [list(b"service=shell"), list(b"cmd=show"), list(b"cmd-arg=version")]), 0, [])]
                return [(acct(u, rng.choice([2, 4, 8]), [list(b"task_id=%d" % rng.randint(1, 99))]), 0, [])]
            mode = rng.choice(["right", "right", "right", "other", "other", "random"])
            ck = {"right": keys[scope], "other": other, "random": "zz-" + tag}[mode]
            ss = session_steps(c, rng.randint(0, 3), script(), fl=rng.choice([0, 0, 4]))
            if mode != "right":
                ss = ss[:1]
            for st in ss:
                st["ckey"] = ck
            steps += ss
            if mode == "right" and rng.random() < 0.4:
                # then a request under the other scope's key on the same, so far healthy, connection
                s2 = session_steps(c, (ss[0]["sid"] + 1) % 4, script(), fl=0)[:1]
                s2[0]["ckey"] = other
                steps += s2
        out.append({"id": "c19ref-%d" % i, "cfg": cfg, "conns": conns, "steps": steps, "iso": False, "log": False})
    return out


def crowd_c09(rng, tag, n):
    """an ASCII login whose packets are separated by crowds of other sessions on the same connection (16, 17, 20, 40 of
    them between two packets of the login, each with a session id of its own, finished or not)"""
    out = []
    for i in range(n):
        cfg = base_cfg(rng, tag)
        k = [16, 17, 20, 40, 33, 64][i % 6]
        good = rng.random() < 0.7
        login = session_steps(1, 1000, ascii_login("alice", ("alice-pw-" + tag) if good else "wrong"), fl=1)
        nxt = [1001]

        def crowd(m):
            res = []
            for _ in range(m):
                r = rng.random()
                if r < 0.5:
                    sc_ = pap_login(rng.choice(["alice", "frank", "carol"]), rng.choice(["alice-pw-" + tag, "frank-pw-" + tag, "x"]))
                elif r < 0.8:
                    sc_ = [(author(rng.choice(["alice", "bob"]), [list(b"service=shell"), list(b"cmd=show")]), 0, [])]
                else:
                    sc_ = ascii_login("frank", "frank-pw-" + tag, stop_after=rng.choice([1, 2]))     # left waiting at a prompt
                res += session_steps(1, nxt[0], sc_, fl=1)
                nxt[0] += 1
            return res
        steps = [login[0]] + crowd(k) + [login[1]] + crowd(k if i % 2 else 3) + [login[2]]
        out.append({"id": "crowd-%d" % i, "cfg": cfg, "conns": [{"c": 1, "addr": "10.1.0.5"}], "steps": steps, "iso": True, "log": False})
    return out


def parallel_c09(rng, tag, n):
    """logins of the SAME user with different passwords on two or three connections, fed at the same moment; the user's
    credential check takes tens of milliseconds (password prefix slow-: bcrypt cost 10), so the checks really overlap"""
    out = []
    for i in range(n):
        cfg = base_cfg(rng, tag)
        good = "slow-" + tag + "-%d" % (i % 3)
        for u in cfg["users"]:
            if u["name"] == "alice" and "s1" in u["scopes"]:
                u["auth"] = auth(good)
        conns, steps = [], []
        pws = [good, "bad-" + tag] + ([good] if rng.random() < 0.3 else [])
        rng.shuffle(pws)
        for c, pw in enumerate(pws, start=1):
            conns.append({"c": c, "addr": "10.1.0.%d" % (4 + c)})
            st = session_steps(c, 0, pap_login("alice", pw))
            st[0]["par"] = True
            steps += st
        out.append({"id": "c09par-%d" % i, "cfg": cfg, "conns": conns, "steps": steps, "iso": True, "log": False, "overlap": True})
    return out


def exhaustive_c09(rng, tag, limit):
    """all interleavings of small script pairs/triples on one connection"""
    cfg = base_cfg(rng, tag)
    out = []
    pa, pb = pw_of(cfg, "s1", "alice"), pw_of(cfg, "s1", "bob")
    scripts = [ascii_login("alice", pa), ascii_login("bob", pb, user_in_start=True), ascii_login("alice", "wrong-pw-xx"),
               ascii_login("bob", pb, stop_after=2), pap_login("alice", pa), ascii_login("alice", pa, abort_at=2),
               [(acct("alice", 2, [list(b"task_id=1")]), 0, [])], ascii_login("", "", stop_after=2)]
    pairs = [(i, j) for i in range(len(scripts)) for j in range(len(scripts)) if i < j]
    rng.shuffle(pairs)
    n = 0
    for (i, j) in pairs:
        ss = [session_steps(1, 0, scripts[i]), session_steps(1, 1, scripts[j])]
        if rng.random() < 0.3:
            k = rng.randrange(len(scripts))
            ss.append(session_steps(1, 3, scripts[k]))      # sid 3 differs from sid 2 only in the upper half
            ss[1] = session_steps(1, 2, scripts[j])
        for il in all_interleavings(ss, 40):
            out.append({"id": "c09x-%d" % n, "cfg": cfg, "conns": [{"c": 1, "addr": "10.1.0.5"}], "steps": il, "iso": True, "log": False})
            n += 1
            if n >= limit:
                return out
    return out


def mc_cfg_concrete():
    """the configuration of spec/MC_Ref.tla (Cfg), for the harness"""
    g = lambda n, a: group(n, a)
    return {"secrets": [secret("s1", "k", ["10.0.0.0/8"])],
            "users": [user("a", ["s1"], auth("pa"), acct=True), user("b", ["s1"], None, groups=[g("0", None), g("1", auth("pb")), g("2", auth("pc"))]),
                      user("c", ["s1"], None), user("d", ["s1"], {"k": "badhex", "pw": ""})],
            "deny": [], "allow": []}


def mc_ref_scenarios(ctx, rng, prop, limit):
    """design check of the reference handlers (MC_Ref) + one replay scenario per explored transition"""
    cfgname = "MCRef.cfg"
    with open(os.path.join(ctx.specdir(), cfgname), "w") as f:
        f.write("SPECIFICATION Spec\nCONSTANTS\n  Sids = {1, 2}\n  MaxPkts = %d\nVIEW View\nACTION_CONSTRAINT Emit\nINVARIANTS NoViolation TranscriptMatchesState\nCHECK_DEADLOCK FALSE\n" % (3 if ctx.tier == "quick" else 4))
    emit = ctx.path("emit-ref.csv")
    r0 = ctx.tlc_ok("MC_Ref", cfg=cfgname, env={"EMIT_FILE": emit}, workers=min(NCPU, 8), heap="8g")
    scripts = emitted_json_lines(emit)
    os.remove(emit)
    total = len(scripts)
    if len(scripts) > limit:
        rng.shuffle(scripts)
        scripts = scripts[:limit]
    cfg = mc_cfg_concrete()
    out = []
    for i, sc in enumerate(scripts):
        steps = [{"c": 1, "sid": p["sid"] - 1, "seq": p["seq"], "ty": p["ty"], "min": p["min"], "fl": 1, "p": raw(p["b"]), "pws": []} for p in sc]
        out.append({"id": "mcref-%d" % i, "cfg": cfg, "conns": [{"c": 1, "addr": "10.1.0.5"}], "steps": steps, "iso": prop == "C09", "log": prop == "C18"})
    return r0, out, total


def collect(ctx, prop):
    quick = ctx.tier == "quick"
    rng = random.Random(ctx.seed * 31337 + int(prop[1:]))
    tag = "%x" % rng.getrandbits(24)
    n = {"C09": (250, 5000), "C10": (900, 20000), "C12": (700, 15000), "C18": (600, 12000), "C07": (800, 15000),
         "C11": (900, 20000), "C14": (800, 20000), "C13": (500, 10000)}.get(prop, (600, 10000))[0 if quick else 1]
    if prop in ("C19", "C03"):
        scen = c19_ref_scenarios(rng, tag, 300 if quick else 6000)
    else:
        scen = [scenario(rng, i, prop, tag) for i in range(n)]
    if prop == "C13":
        scen += dns_scenarios(random.Random("dns-%d" % ctx.seed), tag, 30 if quick else 300)
    if prop == "C09":
        scen += exhaustive_c09(rng, tag, 300 if quick else 6000)
        scen += overlap_c09(rng, tag, 150 if quick else 3000)
        scen += parallel_c09(rng, tag, 12 if quick else 150)
        scen += crowd_c09(rng, tag, 6 if quick else 60)
    if prop in ("C07", "C09", "C10", "C06"):
        scen += reuse_ref_scenarios(rng, tag, 40 if quick else 600)
        if prop == "C09":
            for s in scen[-(40 if quick else 600):]:
                s["iso"] = True
    if prop in ("C06", "C07", "C12"):
        scen += acct_seq_scenarios(rng, tag, 30 if quick else 81)
    if prop in ("C11", "C14", "C07"):
        scen += repeated_rule_scenarios(rng, tag, 20 if quick else 300)
    if prop in ("C07", "C11"):
        scen += many_args_scenarios(rng, tag, 40 if quick else 600)
    if prop in ("C14", "C07"):
        scen += proxy_hostile_scenarios(rng, tag, 20 if quick else 100)
    if prop in ("C14", "C13"):
        scen += span_nodest_scenarios(rng, tag, 2 if quick else 4)
    if prop in ("C07", "C10", "C14"):
        scen += long_name_scenarios(rng, tag, 3 if quick else 6)
    if prop == "C12":
        scen += overlap_c12(rng, tag, 200 if quick else 4000)
        scen += big_record_scenarios(rng, tag, 5 if quick else 20)
    if prop == "C10":
        cfg0 = base_cfg(rng, tag)
        sw = start_sweep(cfg0, "s1", tag)
        if quick:
            rng.shuffle(sw)
            sw = sw[:240]
        for i, sc_ in enumerate(sw):
            scen.append({"id": "c10sweep-%d" % i, "cfg": cfg0, "conns": [{"c": 1, "addr": "10.1.0.5"}], "steps": session_steps(1, 0, sc_, fl=1), "iso": False, "log": False})
    if prop == "C18":
        cfg0 = base_cfg(rng, tag)
        sw = start_sweep_pw(rng, cfg0, "s1", tag)
        if quick:
            rng.shuffle(sw)
            sw = sw[:60]
        for i, sc_ in enumerate(sw):
            scen.append({"id": "c18sweep-%d" % i, "cfg": cfg0, "conns": [{"c": 1, "addr": "10.1.0.5"}], "steps": session_steps(1, 0, sc_, fl=rng.choice([0, 1])), "iso": False, "log": True})
    if prop == "C18":
        # logins whose credential check takes more than a second (bcrypt cost 14), PAP and ASCII, right and wrong password
        cfg1 = base_cfg(rng, tag)
        slowpw = "vvslow-" + tag
        for u in cfg1["users"]:
            if u["name"] == "alice" and "s1" in u["scopes"]:
                u["auth"] = auth(slowpw)
        for i, sc_ in enumerate([pap_login("alice", slowpw), ascii_login("alice", slowpw), pap_login("alice", slowpw + "x")][: (1 if quick else 3)]):
            scen.append({"id": "c18slow-%d" % i, "cfg": cfg1, "conns": [{"c": 1, "addr": "10.1.0.5"}], "steps": session_steps(1, 0, sc_, fl=0), "iso": False, "log": True})
    mcinfo = None
    if prop in ("C07", "C09", "C10", "C14", "C18"):
        r0, mcs, mctotal = mc_ref_scenarios(ctx, rng, prop, 600 if quick else 20000)
        scen += mcs
        mcinfo = {"handlers_model_states": r0["distinct"], "handlers_model_transitions": r0["states"], "scripts_replayed": len(mcs), "scripts_emitted": mctotal}
        ctx.log("MC_Ref: %d states, %d transitions, %d of %d scripts replayed" % (r0["distinct"], r0["states"], len(mcs), mctotal))
    sfile = ctx.path("scen.ndjson")
    with open(sfile, "w") as f:
        for s in scen:
            f.write(json.dumps(s) + "\n")
    tf = ctx.path("trace.ndjson")
    p = ctx.run_harness(["ref", sfile, tf, str(ctx.seed)], check=False)
    crashed = p.returncode != 0
    if crashed:
        drop_partial_tail(tf)
    ctx.log("harness done (rc=%d)" % p.returncode)
    stats = {}
    if not crashed:
        stats = json.loads(p.stdout.strip().splitlines()[-1])
    os.makedirs(ctx.path("chunks"), exist_ok=True)
    chunks = split_trace(tf, NCPU * (1 if quick else 3), ctx.path("chunks"))
    res = validate_chunks(ctx, "Trace_Ref", chunks, heap="4g")
    ctx.log("trace validation done: %d chunks" % len(chunks))
    byid = {s["id"]: s for s in scen}
    found, others, divs = [], set(), []
    for rr in res:
        for line in rr["out"].splitlines():
            if line.startswith('<<"DIV"'):
                divs.append(line[:200])
            m = PV_RE.match(line)
            if not m:
                continue
            tags = set(re.findall(r'"(C\d+)"', m.group(1)))
            if prop == "C13" and "C10" in tags:
                tags.add("C13")       # a PASS the oracle's scope does not allow: users did not stay scoped
            if prop in tags:
                s = byid.get(m.group(2), {})
                found.append({"key": "%s:%s" % (prop, classify(prop, s, m.group(4))), "what": "%s violated at event %s of scenario %s" % (prop, m.group(4), m.group(2)),
                              "replay": {"kind": "ref", "scenario": s, "seed": ctx.seed}})
            others |= tags - {prop}
    if crashed:
        # the harness process died: a panic outside the recovering wrappers (C14); the last scenario in the trace is the replay
        last = None
        for line in open(tf):
            if '"e":"reset"' in line:
                try:
                    last = json.loads(line).get("sc")
                except Exception:
                    pass
        v = {"key": "C14:process-exit", "what": "harness process running the real server died (rc=%d): %s" % (p.returncode, p.stderr[-600:]),
             "replay": {"kind": "ref", "scenario": byid.get(last, {}), "seed": ctx.seed}}
        if prop == "C14":
            found.append(v)
        else:
            raise Inconclusive("reference server process died during scenario %s (see C14): %s" % (last, p.stderr[-800:]))
    calib = None
    if prop == "C11":
        # conformance of the oracle's request-reading operators (Authz!ASV, ServiceOf, CommandOf, ArgString, Unique)
        # with the real argument helpers of authorize_fields.go
        af = ctx.path("args.ndjson")
        ctx.run_harness(["args", af, str(ctx.seed), str(1500 if quick else 20000)])
        os.makedirs(ctx.path("achunks"), exist_ok=True)
        ares = validate_chunks(ctx, "Trace_Args", split_trace(af, NCPU, ctx.path("achunks"), marker=None), heap="3g")
        calib = {"calls": 0, "agree": 0}
        for rr in ares:
            for m in re.finditer(r'"CNT",\s*\[(.*?)\]', rr["out"], re.S):
                for k, v in re.findall(r'(\w+) \|-> (\d+)', m.group(1)):
                    calib[k] = calib.get(k, 0) + int(v)
            divs += [l[:200] for l in rr["out"].splitlines() if l.startswith('<<"DIV"')]
    nsteps = sum(len(s["steps"]) for s in scen)
    nmir = nmir_data = 0
    for line in open(tf):
        if '"e":"mir"' in line:
            nmir += 1
            nmir_data += '"b":[]' not in line
    span = {"scenarios_with_span_handler": sum(1 for s in scen if s["id"].endswith("-span")), "mirror_connections_judged_by_Span_tla": nmir,
            "of_them_with_octets": nmir_data, "divergences": sum(1 for d in divs if "span" in d)}
    cov = {"states": ctx.tlc_distinct, "transitions": ctx.tlc_states, "traces_validated_against_impl": len(scen),
           "evaluations": len(scen), "distinct_nontrivial": len({json.dumps(s["steps"], sort_keys=True) for s in scen if len(s["steps"]) >= 2}),
           "rule": "scenario = configuration + packets of 1-3 sessions interleaved on 1-2 connections of the real reference server; non-trivial = distinct step list with >= 2 packets",
           "samples": [slim(scen[0]), slim(scen[-1])], "steps": nsteps, "events": stats.get("events"),
           "model_divergences": len(divs), "first_divergences": divs[:5], "other_property_observations": sorted(others), "exhaustive": False,
           "design_check": mcinfo, "request_reading_conformance": calib, "span_handler": span}
    return cov, ["the abstract configuration in the trace is the one the harness rendered into the real config.ServerConfig (bcrypt hashes at MinCost)",
                     "pattern text and its AST are produced together by the generator (lib/refgen.py render)",
                     "connections are scripted in-memory objects; packets are fed one at a time (quiescence between packets)"], found


def slim(s):
    return {"id": s["id"], "conns": s["conns"], "steps": [{k: v for k, v in st.items() if k != "pws"} for st in s["steps"][:6]],
            "users": [u["name"] for u in s["cfg"]["users"]]}


def classify(prop, s, ev):
    return ev


def replay(ctx, prop, obj):
    sfile = ctx.path("scen.ndjson")
    with open(sfile, "w") as f:
        f.write(json.dumps(obj["scenario"]) + "\n")
    tf = ctx.path("trace.ndjson")
    ctx.run_harness(["ref", sfile, tf, str(obj.get("seed", 1))], check=False)
    r = ctx.tlc("Trace_Ref", env={"TRACE_FILE": tf})
    hit = False
    for line in r["out"].splitlines():
        if line.startswith('<<"PV"') or line.startswith('<<"DIV"'):
            print(line)
            hit = hit or ('"PV"' in line and prop in line)
    return 1 if hit else 0


def run(ctx, prop):
    cov, assumptions, found = collect(ctx, prop)
    return conclude(ctx, "model_checking", cov, assumptions, found)
