"""Source of MANIFEST.json (bin/mkmanifest writes the file and validates it against the schema)."""
HOOK_COMMITS = ["7415e61"]

SERVER_NOTE = ("Trusted: TLC, the Go toolchain, the harness fakes (fakenet, wrapping handlers). Handler behaviour is the scripted "
               "Chaos handler; value dimensions (flag octets, sequence numbers, bodies, keys) are seeded samples, histories are "
               "TLC-enumerated within the stated bounds. Verdicts come only from observations of the real server.")

CHECKS = {
 "C06": dict(engine="server", design_ref="5/C06", category="model_checking",
   technique="TLA+ Server.tla exhaustively model-checked (TLC); TLC-emitted scripts + seeded scenarios replayed on the real server; traces validated by TLC against Trace_Server.tla (ReplyMirrors on raw header octets, Crypt.tla pad)",
   text="Server.tla (per-connection loop, session table, response object) is model-checked exhaustively within small bounds with the reply-mirror predicate as an invariant; one replay script per client transition is emitted by TLC, run against the real tacquito.Server over scripted connections together with seeded random scenarios over all flag octets / sequence numbers / reply sizes, and every recorded trace is validated by TLC: each written packet's raw header is compared with the request (session, type, version, flags, seq+1 or 1 on RESTART, true length, body de-obfuscated with the TLA+ MD5 pad).",
   note=SERVER_NOTE),
 "C07": dict(engine="server", design_ref="5/C07", category="model_checking",
   technique="TLC model checking of Server.tla + trace validation of real-server executions (reply count per request at each quiescence point)",
   text="Library level: for every request the real server accepted or rejected under TLC-generated and seeded histories the trace spec counts handler invocations and written packets between two blocking reads (exactly one reply, none for 255; rejected: no handler, at most one error packet, connection closed).",
   note=SERVER_NOTE),
 "C08": dict(engine="server", design_ref="5/C08", category="model_checking",
   technique="TLC model checking of Server.tla/Sessions (all sid x seq histories) + replay of every emitted script on the real server + TLC trace validation (DispatchOK, MustReject, table size hooks)",
   text="All histories of (session id, sequence number, handler behaviour) up to the bound are enumerated by TLC on Server.tla with DispatchOK/retention invariants; each is replayed on the real server and the recorded invocations are judged by TLC: odd, strictly above everything received or sent in the incarnation, dispatched to the registered continuation, anything else closes the connection without a handler.",
   note=SERVER_NOTE),
 "C19": dict(engine="server", design_ref="5/C19", category="model_checking",
   technique="TLC evaluates Wire.tla LenMismatch / WellFormedRequest on what the server sees (Crypt.tla pad recomputed in TLA+) for every request of recorded real-server traces",
   text="Requests obfuscated under equal and different keys (valid bodies of every kind, junk, overrunning length fields) are sent to the real server; TLC de-obfuscates them with the server key using the TLA+ MD5 pad, classifies them with the independent length-consistency rule, and checks: class M never reaches a handler and gets exactly one ERROR packet of the matching type then close; class W is never answered as a key mismatch.",
   note=SERVER_NOTE),
 "C20": dict(engine="server", design_ref="5/C20", category="model_checking",
   technique="TLC model checking of gauge invariants in Server.tla + trace validation of gauge values read from the Prometheus registry at every quiescence point of real-server executions",
   text="sessions_active and handle_handlers are read from the default registry at every quiescence point and after close of every replayed history (completed, abandoned, rejected, key mismatch); TLC checks non-negativity, return to rest at close, and equality with the model's gauge values.",
   note=SERVER_NOTE + " serve_accepted and the goroutine gauge are covered by the Lifecycle scenarios."),
}

ENGINES = [
 {"name": "server", "path": "lib/server_family.py + spec/Server.tla, MC_Server.tla, Trace_Server.tla, Wire.tla, Crypt.tla, MD5.tla + harness/chaos.go",
  "serves_properties": ["C06", "C07", "C08", "C19", "C20"],
  "kind_free_text": "TLC exhaustive model checking, script emission, replay on the real server, TLC trace validation"},
]
