"""Source of MANIFEST.json (bin/mkmanifest writes the file and validates it against the schema)."""
HOOK_COMMITS = ["7415e61"]
FIX_COMMITS = ["154bc79", "5b349fa", "e22eec4", "243935d", "ab582fe", "d79ccb0", "fdd348a", "1b4a4cc", "b323deb", "87e785f", "a63e53d", "ed0be68", "4ccedeb"]

SERVER_NOTE = ("Trusted: TLC, the Go toolchain, the harness fakes (fakenet, wrapping handlers). Handler behaviour is the scripted "
               "Chaos handler; value dimensions (flag octets, sequence numbers, bodies, keys) are seeded samples, histories are "
               "TLC-enumerated within the stated bounds. Verdicts come only from observations of the real server.")

CHECKS = {
 "C06": dict(engine="server", design_ref="5/C06", category="model_checking",
   technique="TLA+ Server.tla exhaustively model-checked (TLC); TLC-emitted scripts + seeded scenarios replayed on the real server; traces validated by TLC against Trace_Server.tla (ReplyMirrors on raw header octets, Crypt.tla pad)",
   text="Server.tla (per-connection loop, session table, response object) is model-checked exhaustively within small bounds with the reply-mirror predicate as an invariant; one replay script per client transition is emitted by TLC, run against the real tacquito.Server over scripted connections together with seeded random scenarios over all flag octets / sequence numbers / reply sizes, and every recorded trace is validated by TLC: each written packet's raw header is compared with the request (session, type, version, flags, seq+1 or 1 on RESTART, true length, body de-obfuscated with the TLA+ MD5 pad).",
   note=SERVER_NOTE),
 "C07": dict(engine="server", design_ref="5/C07", category="model_checking",
   technique="TLC model checking of Server.tla + trace validation of real-server executions (reply count per request at each quiescence point)",
   text="Library level: for every request the real server accepted or rejected under TLC-generated and seeded histories the trace spec counts handler invocations and written packets between two blocking reads (exactly one reply, none for 255; rejected: no handler, at most one error packet, connection closed).",
   note=SERVER_NOTE),
 "C08": dict(engine="server", design_ref="5/C08", category="model_checking",
   technique="TLC model checking of Server.tla/Sessions (all sid x seq histories) + replay of every emitted script on the real server + TLC trace validation (DispatchOK, MustReject, table size hooks)",
   text="All histories of (session id, sequence number, handler behaviour) up to the bound are enumerated by TLC on Server.tla with DispatchOK/retention invariants; each is replayed on the real server and the recorded invocations are judged by TLC: odd, strictly above everything received or sent in the incarnation, dispatched to the registered continuation, anything else closes the connection without a handler.",
   note=SERVER_NOTE),
 "C19": dict(engine="server", design_ref="5/C19", category="model_checking",
   technique="TLC evaluates Wire.tla LenMismatch / WellFormedRequest on what the server sees (Crypt.tla pad recomputed in TLA+) for every request of recorded real-server traces",
   text="Requests obfuscated under equal and different keys (valid bodies of every kind, junk, overrunning length fields) are sent to the real server; TLC de-obfuscates them with the server key using the TLA+ MD5 pad, classifies them with the independent length-consistency rule, and checks: class M never reaches a handler and gets exactly one ERROR packet of the matching type then close; class W is never answered as a key mismatch.",
   note=SERVER_NOTE),
 "C20": dict(engine="server", design_ref="5/C20", category="model_checking",
   technique="TLC model checking of gauge invariants in Server.tla + trace validation of gauge values read from the Prometheus registry at every quiescence point of real-server executions",
   text="sessions_active and handle_handlers are read from the default registry at every quiescence point and after close of every replayed history (completed, abandoned, rejected, key mismatch); TLC checks non-negativity, return to rest at close, and equality with the model's gauge values.",
   note=SERVER_NOTE + " serve_accepted and the goroutine gauge are covered by the Lifecycle scenarios."),
}

WIRE_NOTE = ("Trusted: TLC, the Go toolchain, Wire.tla as the reading of RFC 8907 and of the types' validation rules. Values are an enum "
             "sweep, a boundary sweep (every field at and one past its wire width) and seeded boundary-biased samples; not exhaustive over values.")
CHECKS.update({
 "C01": dict(engine="wire", design_ref="5/C01", category="model_checking",
   technique="RFC layouts as TLA+ operators (Wire.tla), model-checked on a small exhaustive domain and all short octet strings (MC_Wire); every recorded real Marshal/Unmarshal judged by TLC (Trace_Wire): bytes = Enc(v), decode of canonical bytes = Dec(b); client header octets via Trace_Client",
   text="The eight wire layouts are written in TLA+ from the RFC figures; TLC checks the spec on its own (round trip, injectivity, agreement of the canonical and the implementation-shaped decoder on all octet strings up to the bound), and evaluates on every recorded operation of the real codecs that the bytes produced equal the RFC layout and that RFC-laid-out bytes (built without the library's encoder) decode to exactly the values they carry.",
   note=WIRE_NOTE),
 "C02": dict(engine="wire", design_ref="5/C02", category="model_checking",
   technique="TLC evaluates Fits/Valid/round-trip predicates of Wire.tla on recorded encode-first and decode-first operations of the real codecs; boundary sweep over every wire width",
   text="For every recorded encode: success implies the value fits every length field and is valid and decodes back to itself (header: single-connect on seq 2); for every decode-first: success implies re-encoding succeeds and decodes to the same value. Fits/Valid are the TLA+ statements, evaluated by TLC.",
   note=WIRE_NOTE),
 "C04": dict(engine="wire", design_ref="5/C04", category="model_checking",
   technique="bounded-exhaustive TLC exploration of the implementation-shaped decoders over all short octet strings (MC_Wire) + TLC judgement of sensor records (panic, canary capacity, allocation) from the real decoders on truncations, corruptions, junk and 64 KiB inputs",
   text="Model: Impl_K is total on all octet strings up to the bound, and a returned value is valid and made of octets of the input. Code: every decode runs under recover, in a slice with canary-filled spare capacity, between two MemStats readings; TLC checks no panic, bounded allocation, validity, and that the variable part equals the input octets that follow the length fields (Packet: body inside the input, length consistent); Impl_K must also explain the outcome (divergence otherwise).",
   note=WIRE_NOTE + " Memory-safety clauses are sensed by Go runtime facilities, the TLA+ part supplies the predicates and the total decoder model."),
 "C03": dict(engine="crypt", design_ref="5/C03", category="model_checking",
   technique="MD5 (RFC 1321) and the RFC 8907 4.5 pad written in plain TLA+ (MD5.tla, Crypt.tla; test suites re-run by TLC each time); TLC recomputes every octet of recorded real traffic in both directions (server via scripted connections, client via loopback TCP)",
   text="Server direction: bodies of boundary lengths (up to 65536) under random keys are fed to the real server, the handler-received body must equal the TLA+ de-obfuscation and the raw reply bytes must equal clear XOR Pad; client direction: Client.Send over loopback TCP against a raw peer, the octets on the wire and the packet returned for scripted reply octets are recomputed by TLC. Secrets are handed over as adjacent sub-slices of one buffer.",
   note="Trusted: TLC, MD5.tla (validated against RFC 1321 A.5 and the captured vector of crypt_test.go each run). The harness uses Go crypto/md5 only to construct inputs. Keys/ids/lengths are seeded samples with boundary bias."),
})
REF_NOTE = ("Trusted: TLC, the harness fakes and observers (wrapping handlers/response, capturing logger and sink), the generator's pairing of "
            "pattern text with its AST. The abstract configuration in the trace is the one rendered into the real ServerConfig. Histories, "
            "configurations and field contents are seeded samples (plus all interleavings of small script sets for C09); verdicts come only from the real server.")
REF_TECH = "real reference server (loader, prefix provider, Start/ASCII/PAP, bcrypt, stringy, local accounter) driven over scripted connections; TLC validates every trace against Trace_Ref.tla: model layer Handlers.tla (expected reply of every request), observation layer "
CHECKS.update({
 "C09": dict(engine="ref", design_ref="5/C09", category="model_checking",
   technique=REF_TECH + "compares each session's replies in the interleaved run with a real isolated re-run of the same session (raw octets), and with the per-session Handlers model",
   text="Session scripts (ASCII logins stopped at every stage, PAP, aborts, authorization, accounting) are interleaved on one connection (all interleavings of small script sets, seeded samples beyond), on two concurrent connections using the same session ids (including ids differing only in the upper half), and on a connection opened after another closed mid-login; every session is then re-run alone on a fresh connection of the real server and TLC requires identical reply octets; the model layer requires each reply to equal Handlers!Handle applied to that session's own history.",
   note=REF_NOTE + " True overlap of two handler executions (a handler blocked while another runs) is exercised by the C15 race harness, not here."),
 "C10": dict(engine="ref", design_ref="5/C10", category="model_checking",
   technique=REF_TECH + "evaluates MayPass (transcript-based statement of the property, independent of the handler structure): PASS => MayPass, and MayPass => PASS for unambiguous well-formed logins",
   text="Configurations with every authenticator arrangement (own, inherited from the first group that has one while later groups differ, none, unbuildable, unknown type, other scope with other credential) and login histories (user in START or CONTINUE, PAP/ASCII, every action/type/service/minor combination, abort at each step, CONTINUE to fresh or finished sessions, START mid-exchange, right/wrong/other's/empty/truncated passwords) run on the real server; TLC tracks what the server asked for per session and checks PASS exactly when the session named a user of the scope whose effective bcrypt credential matches the password supplied at the password step.",
   note=REF_NOTE + " Requests whose body parses under two request layouts are left to the ambiguity rule (divergence only)."),
 "C11": dict(engine="ref", design_ref="5/C11", category="model_checking",
   technique=REF_TECH + "evaluates Authz.tla (first applying rule, user before group rules, default deny) with whole-string regular-expression matching on ASTs (Regex.tla); session authorization compared for equality with the oracle's argument list and add/replace status",
   text="Policies (permit/deny rules with generated regular expressions: alternations, partial anchors, escaped metacharacters, lazy quantifiers, invalid patterns, wildcards, user/group layering, shadowing deny rules; services with match conditions, optional values, scopes) and requests derived from the policy itself (argument strings sampled from the rule's own pattern, then perturbed) run through the real AuthorizeRequest/stringy path; TLC reports a grant that the first applying rule does not permit, grants for unknown users or undecodable requests, and session replies that differ from the configured values of the satisfied services.",
   note=REF_NOTE + " Soundness only for command authorization (a refusal where the oracle would permit is a divergence), as the property states."),
 "C12": dict(engine="ref", design_ref="5/C12", category="model_checking",
   technique=REF_TECH + "requires exactly one sink record between the request and a SUCCESS reply whose JSON decoding equals the request fields decoded by Wire.tla, and ERROR for the requests the property lists",
   text="Accounting requests over every flag combination, printable/non-printable field contents (%, format verbs, quotes, backslashes, control characters, HTML metacharacters), 0..255 arguments including empty ones, repeated records per session, known/unknown users with and without accounter; the capturing sink formats exactly like log.Logger and records the JSON decoding of each line; TLC compares it with Dec(AcctRequest, body).",
   note=REF_NOTE),
 "C14": dict(engine="ref", design_ref="5/C14", category="exploration",
   technique="state-directed exploration: Handlers.tla/Trace_Ref.tla drive and explain every handler state x packet class x configuration variant on the real reference server; panics are sensed by recovering wrappers and by the exit status of the harness process",
   text="Every handler state reachable in the model (entry, waiting for user name, waiting for password, each AAA entry) is entered on the real server under configurations with missing/odd authenticator options, and hit with well-formed, out-of-place, truncated, junk and non-ASCII bodies; a panic inside a handler is recorded and re-raised, a panic elsewhere kills the harness process: both are violations with the last scenario as replay.",
   note=REF_NOTE + " Crash-freedom is sensed, not proven; accept-loop faults are exercised by the Lifecycle scenarios (C17)."),
 "C18": dict(engine="ref", design_ref="5/C18", category="model_checking",
   technique=REF_TECH + "decides from the session transcript which request carries a password (Handlers!PwOfReq) and rejects any logger call (formatted message, structured record minus obscured keys, fields selected for retention) made while that request is handled that shows it; shared secrets may never be shown",
   text="The capturing logger implements every logger interface of the repository and reports, per call, which candidate tokens (all user-message / data values of the scenario, all shared secrets) it shows; TLC, knowing from the replies which request answers the password prompt (or is a PAP START), flags a call that shows that request's password, on success, failure, abort, error and unrecognised-packet paths, with ASCII and non-ASCII passwords.",
   note=REF_NOTE),
})
CHECKS["C13"] = dict(engine="ref", design_ref="5/C13", category="model_checking",
   technique=REF_TECH + "evaluates Admission.tla (deny beats allow, first matching secret configuration in order, IPv4-mapped = IPv4, bit-exact prefix containment) on every lookup of the real loader, and judges probe logins against the user set of the bound scope",
   text="Configurations with 1-3 ordered secret configurations over nested/overlapping IPv4 and IPv6 prefixes, deny/allow lists, users in one, several or no scopes and the same name with per-scope credentials are loaded by the real loader; connections arrive from first/last/just-outside/interior addresses of every prefix in 4-octet, IPv4-mapped and IPv6 form; TLC checks refused vs served, the key of the first matching configuration, no octet written and no handler on a refused connection, and (through probe logins with every scope's credentials) that only the bound scope's users exist.",
   note=REF_NOTE + " A secret configuration none of whose users exists is left to the ambiguity rule (the scope actually bound is identified by its key).")
CHECKS["C16"] = dict(engine="reload", design_ref="5/C16", category="model_checking",
   technique="Reload.tla model-checked (published only grows, current = Fresh(last good document)); TLC emits ALL document histories up to the bound; each is replayed on one real YAML/JSON loader instance and on a long-lived loader.Loader, next to fresh instances; Trace_Reload.tla judges every load and probe",
   text="All histories (length <= 2 quick, <= 3 thorough plus sampled length 4) over a pool of 14 documents - dropping prefix_deny / prefix_allow / both, removing or reordering users and secrets, stripping a user's commands/services/groups/authenticator/accounter, unparsable text, type errors, missing users or secrets - are fed to one loader instance through Unmarshal and Load(path), in YAML and JSON. After every load TLC compares the published value with what a fresh real loader publishes for the same text, checks that bad documents publish nothing and that no earlier published value changed, and compares lookups (served?, key, visible users) of the long-lived Loader with a fresh Loader.",
   note="Trusted: TLC, Go's encoding/json as normal form for comparing configurations. The fsnotify watcher is not driven (it calls the same Load). The document pool is fixed; histories over it are exhaustive to the stated length.")
LIFE_TECH = ("Lifecycle.tla (accept loop, connection goroutines, wait group, cancellation, read deadlines) model-checked by TLC for safety and, under fairness, "
             "for the liveness property cancelled ~> returned; TLC-emitted schedules of environment actions replayed on the real Serve with a fake listener, gates and a logical "
             "clock; Trace_Lifecycle.tla judges the observed event order")
CHECKS["C17"] = dict(engine="lifecycle", design_ref="5/C17", category="model_checking", technique=LIFE_TECH,
   text="All orders of offer / goroutine start / packet / partial octet / EOF / handler completion / deadline expiry / accept timeout / cancel for 2-3 connections are explored on Lifecycle.tla (ServeReturnsLast, DeadlineArmed invariants; ShutdownCompletes under fairness; defect switches addInGoroutine, noDeadline, noWait each break one). One schedule per explored environment transition, pacing schedules (one octet just before each deadline), accept faults and seeded random schedules are replayed on the real Serve: when Serve returns the listener is closed and every accepted connection's goroutine has finished with its connection closed and no handler running; every blocking read has a finite deadline; a connection still mid-packet after the deadline armed for that packet has expired is a violation.",
   note="Trusted: TLC, the fake listener/connection/clock, the verif hooks serve.add / conn.done / serve.ret. Real time is not modelled (logical clock); goroutine scheduling between two environment actions is the Go runtime's. 'Serve has not returned' is never inferred from a time-out.")
CHECKS["C20"]["engine"] = "server+lifecycle"
CHECKS["C20"]["technique"] = CHECKS["C20"]["technique"] + "; Serve-level part: " + LIFE_TECH + " (all four gauges read after Serve returned)"
CHECKS["C20"]["text"] = CHECKS["C20"]["text"] + " Serve level: after every replayed schedule (refused connections, accept faults, shutdown with open connections, abandoned exchanges) the four gauges serve_accepted, handle_handlers, sessions_active and the connection-goroutine gauge are read once Serve has returned and must be back at their values before the schedule, never negative."
CHECKS["C20"]["note"] = SERVER_NOTE
CHECKS["C14"]["engine"] = "ref+lifecycle"
CHECKS["C14"]["text"] = CHECKS["C14"]["text"] + " Accept loop: injected temporary non-timeout Accept errors (EMFILE) must not make Serve return; connections offered afterwards are still served."
CHECKS["C15"] = dict(engine="conc", design_ref="5/C15", category="model_checking",
   technique="LoaderConc.tla (update/query loop: generations of providers and filters, three-step lookups) model-checked by TLC (AtomicLookup, CurrentLookup, NoSharedRead); every TLC schedule replayed on the real loader through verif gate hooks; Trace_LoaderConc.tla judges each lookup's answer with Admission.tla against the generations in force; supplementary sensor: the Go race detector on a concurrent AAA + reload + shutdown workload",
   text="Atomic reload: all interleavings of {reload = build then filters} x {lookup = spawn, deny test, allow test, provider search} for 2-3 lookups and 3 generations are enumerated by TLC; each schedule parks the real goroutines at the hooks l.build / l.q1..q3; configurations of consecutive generations give different answers for the probed addresses, so a lookup that combines the filters of one generation with the providers of another returns an answer no single generation gives - TLC checks every answer is that of one generation in force during the lookup, and that no configuration handed to the loader was written. Data races: the harness built with -race runs 16-32 concurrent connections (PAP/ASCII logins, command authorization with match patterns, session authorization, accounting) against 80-400 reloads and a final shutdown, with nothing in the harness serialising them; every race report with a frame in the repository is a violation.",
   note="Trusted: TLC, the verif gate hooks, the Go race detector (a supplementary sensor OUTSIDE the TLA+ family, stated in DESIGN.md: the model names the loader's shared locations, the runtime monitor sees all). Race detection is schedule dependent: a clean run is no proof of absence.")
CHECKS["C07"]["engine"] = "server+ref"
CHECKS["C07"]["technique"] = CHECKS["C07"]["technique"] + "; reference-server part: " + REF_TECH + "counts handler invocations and written packets per request for every handler path and configuration"
CHECKS["C07"]["text"] = CHECKS["C07"]["text"] + " Reference level: the same count on the real reference server for every AAA path (well-formed, malformed, non-ASCII, out-of-place requests; users with and without authenticator/accounter/groups), with Handlers.tla predicting the single reply."
CHECKS["C05"] = dict(engine="framing", design_ref="5/C05", category="model_checking",
   technique="TLC explores ALL segmentations of all small streams on the implementation-shaped reader of Framing.tla against the segmentation-free function FramingFn!Parse; byte streams with seeded chunkings replayed on the real server and judged by TLC (Trace_Framing); client direction over TCP (Trace_Client)",
   text="Parse(stream) defines what must be delivered from a byte stream independently of segmentation; MC_Framing shows the chunk-fed reader state machine (read-ahead buffer, two ReadFull steps, length test) equals it for every segmentation of every small stream, refuses oversize headers in the step that completes the header and never delivers a short packet. The real server is fed 1..6 packets (bodies 0..65536) cut into one-octet, boundary +-1, 107-octet and random chunks, with truncation, EOF, fired deadline and oversize endings; TLC compares the packets the handler received with Parse(stream).",
   note="Trusted: TLC, the scripted net.Conn (returns exactly the scripted chunk per Read). Chunkings and body lengths are seeded samples; exhaustive only in the scaled model.")

ENGINES = [
 {"name": "conc", "path": "lib/conc_family.py + spec/LoaderConc.tla, MC_LoaderConc.tla, Trace_LoaderConc.tla, Admission.tla + harness/conc.go",
  "serves_properties": ["C15"], "kind_free_text": "interleaving model check + gated schedule replay; -race workload as supplementary sensor"},
 {"name": "lifecycle", "path": "lib/lifecycle_family.py, lib/combo.py + spec/Lifecycle.tla, MC_Lifecycle.tla, Trace_Lifecycle.tla + harness/life.go, fakenet.go (logical clock)",
  "serves_properties": ["C17", "C20", "C14"], "kind_free_text": "safety + liveness model checking, schedule replay on the real Serve"},
 {"name": "reload", "path": "lib/reload_family.py + spec/Reload.tla, MC_Reload.tla, Trace_Reload.tla + harness/reload.go",
  "serves_properties": ["C16"], "kind_free_text": "exhaustive document histories replayed on real loaders, fresh-vs-reloaded comparison"},
 {"name": "ref", "path": "lib/ref_family.py, lib/refgen.py, lib/combo.py + spec/Handlers.tla, Authz.tla, Regex.tla, Admission.tla, Msgs.tla, Trace_Ref.tla + harness/ref.go, caplog.go",
  "serves_properties": ["C07", "C09", "C10", "C11", "C12", "C13", "C14", "C18"], "kind_free_text": "reference server replay + TLC trace validation with model and oracle layers"},
 {"name": "framing", "path": "lib/framing_family.py + spec/Framing.tla, FramingFn.tla, MC_Framing.tla, Trace_Framing.tla + harness/chaos.go (stream mode)",
  "serves_properties": ["C05"], "kind_free_text": "all-segmentations model check + stream replay"},
 {"name": "wire", "path": "lib/wire_family.py + spec/Wire.tla, MC_Wire.tla, Trace_Wire.tla + harness/codec.go",
  "serves_properties": ["C01", "C02", "C04"], "kind_free_text": "TLA+ layouts/decoders model-checked; TLC judges recorded codec operations"},
 {"name": "crypt", "path": "lib/crypt_family.py + spec/MD5.tla, Crypt.tla, MC_Crypt.tla, Trace_Client.tla, Trace_Server.tla + harness/client.go, chaos.go",
  "serves_properties": ["C03"], "kind_free_text": "pure-TLA+ MD5 pad as oracle for both directions"},
 {"name": "server", "path": "lib/server_family.py + spec/Server.tla, MC_Server.tla, Trace_Server.tla, Wire.tla, Crypt.tla, MD5.tla + harness/chaos.go",
  "serves_properties": ["C06", "C07", "C08", "C19", "C20"],
  "kind_free_text": "TLC exhaustive model checking, script emission, replay on the real server, TLC trace validation"},
]
