"""C06 C07 C08 C19 C20 (library level): Server.tla design check, TLC-emitted scripts + seeded random
scenarios replayed on the real tacquito.Server (harness `chaos`), traces validated by Trace_Server.tla."""
import json, os, random, re
from vf import *

TAGS = {"C06", "C07", "C08", "C19", "C20", "C05"}


def mc_cfg(ctx, maxpkts, seqs, sids="{1, 2}", defects="{}", emit=True, name="MCq.cfg"):
    txt = """SPECIFICATION MCSpec
CONSTANTS
  SID = %s
  SEQS = %s
  MaxPkts = %d
  Defects = %s
  DefectSet = %s
  Packets = {}
VIEW View
%s
INVARIANTS C06 C07 C08 C08Retain C20NonNeg C20Rest GaugeMatchesTable
CHECK_DEADLOCK FALSE
""" % (sids, seqs, maxpkts, defects, defects, "ACTION_CONSTRAINT Emit" if emit else "")
    with open(os.path.join(ctx.specdir(), name), "w") as f:
        f.write(txt)
    return name


def design_check_and_scripts(ctx, maxpkts, seqs):
    """Exhaustive check of Server.tla within the bounds; returns the emitted scripts (one per client transition)."""
    cfg = mc_cfg(ctx, maxpkts, seqs)
    emit = ctx.path("emit-server.csv")
    r = ctx.tlc_ok("MC_Server", cfg=cfg, env={"EMIT_FILE": emit}, workers=min(NCPU, 8), heap="8g")
    scripts = emitted_json_lines(emit)
    os.remove(emit)
    return r, scripts


# ---- seeded random scenarios (value dimension) ----------------------------------------

def rand_body(rng, ty):
    """A clear body: usually a well-formed request of the type, sometimes junk."""
    def txt(n):
        return [rng.choice(b"abcdefghijklmnopqrstuvwxyz0123456789=*. -_/") for _ in range(n)]
    k = rng.random()
    if k < 0.75:
        u, p, r = txt(rng.randint(0, 12)), txt(rng.randint(0, 6)), txt(rng.randint(0, 10))
        if ty == 1:
            if rng.random() < 0.6:
                d = txt(rng.randint(0, 10))
                return [rng.choice([1, 2, 4]), rng.randint(0, 15), rng.randint(1, 6), rng.randint(0, 9), len(u), len(p), len(r), len(d)] + u + p + r + d
            m, d = txt(rng.randint(0, 12)), txt(rng.randint(0, 4))
            return [len(m) >> 8, len(m) & 255, len(d) >> 8, len(d) & 255, rng.choice([0, 0, 1])] + m + d
        args = [txt(rng.randint(2, 14)) for _ in range(rng.randint(0, 4))]
        hdr = [rng.choice([0, 1, 2, 3, 4, 5, 6, 8, 16]), rng.randint(0, 15), rng.randint(0, 6), rng.randint(0, 9), len(u), len(p), len(r), len(args)]
        if ty == 3:
            hdr = [rng.choice([2, 4, 8, 10])] + hdr
        return hdr + [len(a) for a in args] + u + p + r + [x for a in args for x in a]
    if k < 0.9:
        return [rng.randint(0, 255) for _ in range(rng.randint(0, 40))]
    return None  # harness default


def rand_scenario(rng, idx, focus):
    n = rng.randint(1, 8)
    pk = []
    expect = {}  # sid -> next expected client seq (if session believed open)
    sc = {"id": "r%d" % idx, "pkts": pk}
    if focus == "C19" or rng.random() < 0.15:
        sc["key"] = [rng.randint(0, 255) for _ in range(rng.choice([0, 1, 6, 13, 70]))]
    for _ in range(n):
        sid = rng.randint(0, 3)
        r = rng.random()
        if sid in expect and r < 0.6:
            seq = expect[sid]
        elif r < 0.75:
            seq = 1
        elif r < 0.85:
            seq = rng.choice([251, 253, 255, 3, 5, 7])
        elif r < 0.93:
            seq = rng.randrange(1, 256, 2)
        else:
            seq = rng.choice([0, 2, 4, 254, rng.randrange(0, 256, 2)])
        ty = rng.randint(1, 3)
        fl = rng.randint(0, 255)
        if focus == "C19":
            fl &= 0xfe if rng.random() < 0.8 else 0xff
        elif rng.random() < 0.88:
            fl |= 1
        else:
            fl &= 0xfe
        rd = "ok"
        r = rng.random()
        if r < 0.04:
            rd = "short"
        elif r < 0.08:
            rd = "badhdr"
        elif r < 0.10:
            rd = "oversize"
        elif r < (0.35 if focus == "C19" else 0.13):
            rd = "mismatch"
        cont = rng.random() < (0.6 if focus in ("C08", "C20") else 0.45)
        if ty == 1 and rng.random() < 0.07:
            ops = ["restart"]
            cont = False
        else:
            ops = ["next", "reply"] if cont else ["reply"]
            if rng.random() < 0.08:
                ops = ops[:-1] + ["badreply", "reply"]
            elif rng.random() < 0.06:
                ops = ops[:-1] + ["xreply"]
        p = {"sid": sid, "seq": seq, "ty": ty, "min": rng.randint(0, 1), "fl": fl, "rd": rd, "ops": ops, "bv": rng.randint(0, 9)}
        if rd in ("ok",) and rng.random() < 0.7:
            b = rand_body(rng, ty)
            if b is not None:
                if focus == "C19" and len(b) > 1 and rng.random() < 0.35:
                    b = b[:len(b) - rng.randint(1, min(4, len(b) - 1))]   # a valid body cut short by a few octets
                p["body"] = b
        if focus == "C19" and rng.random() < 0.6 and rd == "ok":
            p["ckey"] = [rng.randint(0, 255) for _ in range(rng.choice([0, 1, 5, 9]))]
        r = rng.random()
        if r < 0.05:
            p["rsz"] = 300
        elif r < 0.055 and (fl & 1):
            p["rsz"] = 65536
        p["rst"] = rng.choice([1, 2, 3, 4, 5, 7]) if ty == 1 else (rng.choice([1, 2, 16, 17]) if ty == 2 else rng.choice([1, 2]))
        if rng.random() < 0.15:
            p["chunk"] = rng.choice([1, 2, 3, 5, 11, 12, 13, 64])
        pk.append(p)
        if rd != "ok" and not (rd == "mismatch" and fl & 1):
            break
        if seq % 2 == 1 and seq >= 1:
            if cont:
                expect[sid] = seq + 2
            else:
                expect.pop(sid, None)
    if rng.random() < 0.3:
        pk.append({"sid": 0, "seq": 0, "ty": 0, "min": 0, "fl": 0, "rd": "eof", "ops": []})
    return sc


def manysess_scenario(rng, idx, n=200):
    """very many sessions left open (continuation registered) on one connection, then follow-ups and a replay for old ones"""
    sids = [(i * 7919 + 5 + idx) & 0xffffffff for i in range(n)]
    pk = []
    for i in range(n):
        pk.append({"sid": i, "seq": 1, "ty": rng.randint(1, 3), "min": 0, "fl": 1, "rd": "ok", "ops": ["next", "reply"], "bv": 0})
    for i in rng.sample(range(n), 3) + [0, n - 1]:
        pk.append({"sid": i, "seq": 3, "ty": pk[i]["ty"], "min": 0, "fl": 1, "rd": "ok", "ops": ["reply"], "bv": 0})
    j = rng.choice([1, 2, n // 2])
    pk.append({"sid": j, "seq": 1, "ty": pk[j]["ty"], "min": 0, "fl": 1, "rd": "ok", "ops": ["reply"], "bv": 0})     # replay of an open session's first packet
    pk.append({"sid": 0, "seq": 0, "ty": 0, "min": 0, "fl": 0, "rd": "eof", "ops": []})
    return {"id": "manysess%d" % idx, "sids": sids, "pkts": pk}


def reuse_scenario(rng, idx):
    """a session left waiting for its continuation while other sessions of the connection finish and their ids are used again"""
    pk = []
    a, b = rng.sample(range(4), 2)
    ty = rng.randint(1, 3)
    P = lambda sid, seq, ops: {"sid": sid, "seq": seq, "ty": ty, "min": 0, "fl": rng.choice([0, 1, 4, 5]), "rd": "ok", "ops": ops, "bv": 0}
    pk.append(P(a, 1, ["next", "reply"]))
    for _ in range(rng.randint(1, 3)):
        pk.append(P(b, 1, ["reply"]))                    # completes; the id is free again
    if rng.random() < 0.5:
        pk.append(P(b, 1, ["next", "reply"]))
        pk.append(P(b, 3, ["reply"]))
        pk.append(P(b, 1, ["reply"]))
    pk.append(P(a, 3, ["reply"]))                        # the waiting session goes on with its continuation, and completes
    pk.append(P(a, 1, ["reply"]))
    pk.append({"sid": 0, "seq": 0, "ty": 0, "min": 0, "fl": 0, "rd": "eof", "ops": []})
    return {"id": "reuse%d" % idx, "pkts": pk}


def scripts_to_scenarios(scripts, prefix):
    return [{"id": "%s%d" % (prefix, i), "pkts": s} for i, s in enumerate(scripts)]


PV_RE = re.compile(r'^<<"PV", \{(.*?)\}, "(.*?)", (\d+), "(.*?)">>$')
DIV_RE = re.compile(r'^<<"DIV", "(.*?)", (\d+), (.*)>>$')


def collect(ctx, prop):
    quick = ctx.tier == "quick"
    rng = random.Random(ctx.seed * 7919 + int(prop[1:]))
    # 1. design check + script emission
    if quick:
        r, scripts = design_check_and_scripts(ctx, 3, "{1, 2, 3, 5, 253, 255}")
        nmc, nrand = 2500, 1500
    else:
        r, scripts = design_check_and_scripts(ctx, 4, "{1, 2, 3, 5, 253, 255}")
        nmc, nrand = 60000, 10000         # of ~275 000 emitted scripts: all short ones + a seeded sample (a full replay takes 45 min per property)
    ctx.log("design check: %d states, %d distinct; %d scripts emitted" % (r["states"], r["distinct"], len(scripts)))
    total_scripts = len(scripts)
    if len(scripts) > nmc:
        short = [s for s in scripts if len(s) <= 1]
        rest = [s for s in scripts if len(s) > 1]
        rng.shuffle(rest)
        scripts = short + rest[:max(0, nmc - len(short))]
    scen = scripts_to_scenarios(scripts, "mc")
    scen += [rand_scenario(rng, i, prop) for i in range(nrand)]
    # handlers that answer through Response.Write with a packet built on a copy of the request's header (single-packet sessions)
    for s in scen:
        for q in s.get("pkts", []):
            if q.get("ops") == ["reply"] and q.get("rd") == "ok" and rng.random() < 0.06:
                q["viawrite"] = True
    # boundary session ids (0, 1, the sign bit, all ones) on a share of the scenarios
    for s in scen:
        if rng.random() < 0.12:
            s["sids"] = rng.sample([0, 1, 0x80000000, 0xffffffff, 0x00000100, 0x7fffffff], 4)
    scen += [reuse_scenario(rng, i) for i in range(40 if quick else 600)]
    if prop in ("C08", "C07", "C20"):
        scen += [manysess_scenario(rng, i, 200 if i % 2 == 0 else 140) for i in range(6 if quick else 24)]
    byid = {s["id"]: s for s in scen}
    sf = ctx.path("scen.ndjson")
    with open(sf, "w") as f:
        for s in scen:
            f.write(json.dumps(s) + "\n")
    # 2. replay on the real server
    tf = ctx.path("trace.ndjson")
    p = ctx.run_harness(["chaos", sf, tf, str(ctx.seed)])
    stats = json.loads(p.stdout.strip().splitlines()[-1])
    ctx.log("harness: %s" % stats)
    # 3. trace validation
    os.makedirs(ctx.path("chunks"), exist_ok=True)
    chunks = split_trace(tf, NCPU * (1 if quick else 8), ctx.path("chunks"))
    res = validate_chunks(ctx, "Trace_Server", chunks, timeout=1800 if quick else 5400)
    pvs, divs = [], []
    for rr in res:
        for line in rr["out"].splitlines():
            m = PV_RE.match(line)
            if m:
                tags = set(re.findall(r'"(C\d+)"', m.group(1)))
                pvs.append({"tags": tags, "sc": m.group(2), "l": int(m.group(3)), "ev": m.group(4)})
                continue
            m = DIV_RE.match(line)
            if m:
                divs.append({"sc": m.group(1), "l": int(m.group(2)), "ev": m.group(3)[:200]})
    mine = [v for v in pvs if prop in v["tags"]]
    found = []
    for v in mine:
        s = byid.get(v["sc"], {})
        found.append({"key": "%s:%s" % (prop, classify(prop, s, v)), "what": "%s violated at event %s of scenario %s" % (prop, v["ev"], v["sc"]),
                      "replay": {"kind": "chaos", "scenario": s, "seed": ctx.seed}})
    nontrivial = len({json.dumps(s["pkts"], sort_keys=True) for s in scen if len(s["pkts"]) >= 2})
    cov = {"states": ctx.tlc_distinct, "transitions": ctx.tlc_states, "traces_validated_against_impl": len(scen),
           "evaluations": len(scen), "distinct_nontrivial": nontrivial,
           "rule": "scenario = one connection; TLC-emitted scripts (one per client transition of MC_Server, %d of %d %s) + seeded random scenarios; non-trivial = distinct scenario with >= 2 packets" % (len(scripts), total_scripts, "sampled" if len(scripts) < total_scripts else "all"),
           "samples": [scen[0], scen[len(scen) // 2], scen[-1]],
           "events": stats.get("events"), "design_states": r["distinct"],
           "model_divergences": len(divs), "first_divergences": divs[:5],
           "other_property_observations": sorted({t for v in pvs for t in v["tags"] if t != prop}),
           "exhaustive": False}
    level = "model_checking"
    return cov, ["handler behaviour is the scripted Chaos handler (replies exactly once)",
                     "connections are scripted in-memory net.Conn objects",
                     "client packets are obfuscated with Go crypto/md5 for input construction only; what the server sees is recomputed by TLC (Crypt.tla)"], found


def classify(prop, s, v):
    """Structural signature of a violating scenario (so different violations of one property stay distinct)."""
    pk = s.get("pkts", [])
    seqs = [p.get("seq") for p in pk]
    if prop == "C08":
        if 255 in seqs:
            return "after-255"
        return "seq-order"
    if prop == "C20":
        if any(p.get("seq", 1) % 2 == 0 for p in pk):
            return "even-seq"
        return "open-at-close"
    return v["ev"]


def replay(ctx, prop, obj):
    sf = ctx.path("scen.ndjson")
    with open(sf, "w") as f:
        f.write(json.dumps(obj["scenario"]) + "\n")
    tf = ctx.path("trace.ndjson")
    ctx.run_harness(["chaos", sf, tf, str(obj.get("seed", 1))])
    r = ctx.tlc("Trace_Server", env={"TRACE_FILE": tf})
    print(open(tf).read())
    for line in r["out"].splitlines():
        if line.startswith('<<"PV"') or line.startswith('<<"DIV"'):
            print(line)
    return 1 if any(prop in l for l in r["out"].splitlines() if l.startswith('<<"PV"')) else 0


def run(ctx, prop):
    cov, assumptions, found = collect(ctx, prop)
    return conclude(ctx, "model_checking", cov, assumptions, found)
