package main

import (
	"bytes"
	"context"
	"fmt"
	"sort"
	"strings"
	"sync"
	"sync/atomic"

	tq "github.com/facebookincubator/tacquito"
	rlog "github.com/facebookincubator/tacquito/cmds/server/log"
)

// CapLog implements every loggerProvider interface of the repository and records what the
// code asks its logger to emit or retain.
type CapLog struct {
	mu     sync.Mutex
	rec    *Rec
	on     bool     // record log calls as trace events
	Tokens []string // secret tokens to look for (passwords, shared secrets)
	Gate   func(kind, msg string)
	Calls  int64
	// one-shot gate: when armed, the next logger call parks until released (a logger call is an injected call
	// inside the handlers, hence a scheduling point we control: C09 overlap scenarios)
	armed   int32
	parked  chan struct{}
	release chan struct{}
	// the repository's own logger (cmds/server/log, debug level) writing into a buffer: every recorded call is also
	// handed to it and what it renders is searched for the same tokens (its Record does the obscuring in production)
	real    *rlog.Logger
	realBuf *bytes.Buffer
}

func NewCapLog(rec *Rec, on bool) *CapLog {
	l := &CapLog{rec: rec, on: on, realBuf: &bytes.Buffer{}}
	l.real = rlog.New(30, l.realBuf)
	return l
}

// rendered: run f against the real logger and return what it wrote
func (l *CapLog) rendered(f func(r *rlog.Logger)) string {
	l.mu.Lock()
	defer l.mu.Unlock()
	l.realBuf.Reset()
	f(l.real)
	return l.realBuf.String()
}

func (l *CapLog) hits(s string) []string {
	var h []string
	seen := map[string]bool{}
	for _, t := range l.Tokens {
		if t != "" && !seen[t] && strings.Contains(s, t) {
			seen[t] = true
			h = append(h, t)
		}
	}
	return h
}

// hb renders token hits as octet arrays (TLC compares them with request fields)
func hb(h []string) [][]int {
	out := [][]int{}
	for _, t := range h {
		out = append(out, S(t))
	}
	return out
}

// ArmGate makes the next logger call park; returns the channels to wait on / to close.
func (l *CapLog) ArmGate() (parked chan struct{}, release chan struct{}) {
	l.parked, l.release = make(chan struct{}), make(chan struct{})
	atomic.StoreInt32(&l.armed, 1)
	return l.parked, l.release
}
func (l *CapLog) Disarm() { atomic.StoreInt32(&l.armed, 0) }
func (l *CapLog) gatePoint() {
	if atomic.LoadInt32(&l.armed) == 1 && atomic.CompareAndSwapInt32(&l.armed, 1, 0) {
		close(l.parked)
		<-l.release
	}
}

func (l *CapLog) logf(kind string, format string, args ...interface{}) {
	atomic.AddInt64(&l.Calls, 1)
	l.gatePoint()
	var msg string
	if l.on || l.Gate != nil {
		msg = fmt.Sprintf(format, args...)
	}
	if l.Gate != nil {
		l.Gate(kind, msg)
	}
	if !l.on {
		return
	}
	out := l.rendered(func(r *rlog.Logger) {
		switch kind {
		case "info":
			r.Infof(context.Background(), format, args...)
		case "error":
			r.Errorf(context.Background(), format, args...)
		default:
			r.Debugf(context.Background(), format, args...)
		}
	})
	l.rec.Emit(E{"e": "log", "k": kind, "msg": msg, "hits": hb(uniq(append(l.hits(msg), l.hits(out)...)))})
}

func uniq(a []string) []string {
	seen := map[string]bool{}
	out := []string{}
	for _, x := range a {
		if !seen[x] {
			seen[x] = true
			out = append(out, x)
		}
	}
	return out
}

func nz(a []string) []string {
	if a == nil {
		return []string{}
	}
	return a
}

func (l *CapLog) Infof(ctx context.Context, format string, args ...interface{}) {
	l.logf("info", format, args...)
}
func (l *CapLog) Errorf(ctx context.Context, format string, args ...interface{}) {
	l.logf("error", format, args...)
}
func (l *CapLog) Debugf(ctx context.Context, format string, args ...interface{}) {
	l.logf("debug", format, args...)
}

// Record: a structured record; keys listed in obscure are marked by the same call as to be obscured.
func (l *CapLog) Record(ctx context.Context, r map[string]string, obscure ...string) {
	atomic.AddInt64(&l.Calls, 1)
	l.gatePoint()
	if l.Gate != nil {
		l.Gate("record", "")
	}
	if !l.on {
		return
	}
	obs := map[string]bool{}
	for _, k := range obscure {
		obs[k] = true
	}
	keys := make([]string, 0, len(r))
	for k := range r {
		keys = append(keys, k)
	}
	sort.Strings(keys)
	shown := []string{}
	hitKeys := []string{}
	hits := []string{}
	for _, k := range keys {
		if obs[k] {
			continue
		}
		shown = append(shown, k)
		if h := l.hits(r[k]); len(h) > 0 {
			hitKeys = append(hitKeys, k)
			hits = append(hits, h...)
		}
		if h := l.hits(k); len(h) > 0 {
			hitKeys = append(hitKeys, k)
			hits = append(hits, h...)
		}
	}
	// what the repository's logger makes of the same call (on a copy: its Record overwrites the obscured values in place)
	cp := make(map[string]string, len(r))
	for k, v := range r {
		cp[k] = v
	}
	out := l.rendered(func(rl *rlog.Logger) { rl.Record(ctx, cp, obscure...) })
	if h := l.hits(out); len(h) > 0 {
		hitKeys = append(hitKeys, "<rendered>")
		hits = uniq(append(hits, h...))
	}
	l.rec.Emit(E{"e": "log", "k": "record", "keys": shown, "obs": nz(obscure), "hitkeys": hitKeys, "hits": hb(hits), "pt": r["packet-type"]})
}

// Set: context fields selected for retention.
func (l *CapLog) Set(ctx context.Context, fields map[string]string, keys ...tq.ContextKey) context.Context {
	atomic.AddInt64(&l.Calls, 1)
	l.gatePoint()
	if l.on {
		ks := []string{}
		hitKeys := []string{}
		hits := []string{}
		for _, k := range keys {
			ks = append(ks, string(k))
			if v, ok := fields[string(k)]; ok {
				if h := l.hits(v); len(h) > 0 {
					hitKeys = append(hitKeys, string(k))
					hits = append(hits, h...)
				}
			}
		}
		l.rec.Emit(E{"e": "log", "k": "set", "keys": ks, "hitkeys": hitKeys, "hits": hb(hits)})
	}
	for _, k := range keys {
		if v, ok := fields[string(k)]; ok {
			ctx = context.WithValue(ctx, k, v)
		}
	}
	return ctx
}
