package main

import (
	"fmt"
	"math/rand"
	"os"
)

func newRand(seed int64) *rand.Rand { return rand.New(rand.NewSource(seed)) }

func main() {
	if len(os.Args) < 2 {
		fmt.Fprintln(os.Stderr, "usage: vh <cmd> ...")
		os.Exit(2)
	}
	switch os.Args[1] {
	case "chaos":
		cmdChaos(os.Args[2:])
	case "codec":
		cmdCodec(os.Args[2:])
	case "client":
		cmdClient(os.Args[2:])
	case "ref":
		cmdRef(os.Args[2:])
	case "reload":
		cmdReload(os.Args[2:])
	case "life":
		cmdLife(os.Args[2:])
	case "args":
		cmdArgs(os.Args[2:])
	case "concgate":
		cmdConcGate(os.Args[2:])
	case "concstress":
		cmdConcStress(os.Args[2:])
	default:
		fmt.Fprintln(os.Stderr, "unknown command", os.Args[1])
		os.Exit(2)
	}
}
