package main

import (
	"fmt"
	tq "github.com/facebookincubator/tacquito"
	"pgregory.net/rapid"
	"github.com/prometheus/client_golang/prometheus"
)

func main() {
	_ = rapid.Int
	_ = prometheus.DefaultGatherer
	fmt.Println(tq.MaxBodyLength)
}
