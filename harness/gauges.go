package main

import (
	"github.com/prometheus/client_golang/prometheus"
	"github.com/prometheus/client_golang/prometheus/collectors"
	dto "github.com/prometheus/client_model/go"
)

func init() {
	// the Go/process collectors make every Gather() stop the world; we only read tacquito's own metrics
	prometheus.Unregister(collectors.NewGoCollector())
	prometheus.Unregister(collectors.NewProcessCollector(collectors.ProcessCollectorOpts{}))
}

// Gauges reads the named tacquito metrics (gauges or counters) from the default registry.
func Metrics(names ...string) map[string]int {
	mfs, err := prometheus.DefaultGatherer.Gather()
	if err != nil {
		panic(err)
	}
	want := map[string]bool{}
	for _, n := range names {
		want[n] = true
	}
	out := map[string]int{}
	for _, mf := range mfs {
		if !want[mf.GetName()] {
			continue
		}
		for _, m := range mf.Metric {
			switch mf.GetType() {
			case dto.MetricType_GAUGE:
				out[mf.GetName()] += int(m.GetGauge().GetValue())
			case dto.MetricType_COUNTER:
				out[mf.GetName()] += int(m.GetCounter().GetValue())
			}
		}
	}
	return out
}

const (
	gSessions = "tacquito_sessions_active"
	gHandlers = "tacquito_handle_handlers"
	gAccepted = "tacquito_serve_accepted"
	gRoutines = "tacquito_waitgroup_handle_routines_active"
)

type G4 struct{ Sess, Hand, Acc, Rout int }

func ReadG4() G4 {
	m := Metrics(gSessions, gHandlers, gAccepted, gRoutines)
	return G4{m[gSessions], m[gHandlers], m[gAccepted], m[gRoutines]}
}
func (a G4) Sub(b G4) G4 { return G4{a.Sess - b.Sess, a.Hand - b.Hand, a.Acc - b.Acc, a.Rout - b.Rout} }
