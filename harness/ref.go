package main

import (
	"bufio"
	"context"
	"encoding/hex"
	"encoding/json"
	"fmt"
	gosyslog "log/syslog"
	"net"
	"os"
	"strings"
	"sync"
	"time"

	tq "github.com/facebookincubator/tacquito"
	"github.com/facebookincubator/tacquito/cmds/server/config"
	"github.com/facebookincubator/tacquito/cmds/server/config/accounters/local"
	sysacct "github.com/facebookincubator/tacquito/cmds/server/config/accounters/syslog"
	"github.com/facebookincubator/tacquito/cmds/server/config/authenticators/bcrypt"
	"github.com/facebookincubator/tacquito/cmds/server/config/authorizers/stringy"
	"github.com/facebookincubator/tacquito/cmds/server/config/secret"
	dnsprov "github.com/facebookincubator/tacquito/cmds/server/config/secret/dns"
	"github.com/facebookincubator/tacquito/cmds/server/config/secret/prefix"
	"github.com/facebookincubator/tacquito/cmds/server/handlers"
	"github.com/facebookincubator/tacquito/cmds/server/loader"

	xbcrypt "golang.org/x/crypto/bcrypt"
)

// ---- scenario format ----------------------------------------------------------------------

// BS: octets given either as a JSON string (ASCII) or as an array of numbers.
type BS []byte

func (b *BS) UnmarshalJSON(d []byte) error {
	if len(d) > 0 && d[0] == '"' {
		var s string
		if err := json.Unmarshal(d, &s); err != nil {
			return err
		}
		*b = BS(s)
		return nil
	}
	var a []int
	if err := json.Unmarshal(d, &a); err != nil {
		return err
	}
	*b = BS(fromInts(a))
	return nil
}
func (b BS) MarshalJSON() ([]byte, error) { return json.Marshal(B([]byte(b))) }

type RAuth struct {
	K  string `json:"k"`  // bcrypt | badhex | nohash
	Pw BS     `json:"pw"` // clear password (bcrypt)
}
type RValue struct {
	Name   BS   `json:"name"`
	Values []BS `json:"values"`
	Opt    bool `json:"opt"`
}
type RService struct {
	Name  BS       `json:"name"`
	Match []RValue `json:"match"`
	Set   []RValue `json:"set"`
	Opt   bool     `json:"opt"`
}
type RPattern struct {
	S   BS              `json:"s"`   // pattern text
	Ast json.RawMessage `json:"ast"` // its abstract syntax tree (for the TLA+ oracle only)
}
type RCommand struct {
	Name   BS         `json:"name"`
	Match  []RPattern `json:"match"`
	Action int        `json:"action"` // 1 deny, 2 permit
}
type RGroup struct {
	Name     BS         `json:"name"`
	Auth     RAuth      `json:"auth"`
	Acct     bool       `json:"acct"`
	AcctK    string     `json:"acctk"` // "" / "file" = log-backed accounter, "syslog" = syslog accounter
	Commands []RCommand `json:"commands"`
	Services []RService `json:"services"`
}
type RUser struct {
	Name     BS         `json:"name"`
	Scopes   []string   `json:"scopes"`
	Auth     RAuth      `json:"auth"`
	Acct     bool       `json:"acct"`
	AcctK    string     `json:"acctk"`
	Groups   []RGroup   `json:"groups"`
	Commands []RCommand `json:"commands"`
	Services []RService `json:"services"`
}
type RPrefix struct {
	S    string `json:"s"`  // CIDR text given to the real configuration
	IP   BS     `json:"ip"` // the same prefix, structured, for the TLA+ oracle
	Bits int    `json:"bits"`
}
type RSecret struct {
	Name      string    `json:"name"`
	NameB     BS        `json:"nameb"`
	Key       BS        `json:"key"`
	Prefixes  []RPrefix `json:"prefixes"`
	NoHandler bool      `json:"nohandler"`
	Span      *RSpan    `json:"span,omitempty"`
	Kind      string    `json:"kind,omitempty"`  // "" = prefix provider | "dns" = DNS provider (reverse lookup of the remote address)
	Hosts     []string  `json:"hosts,omitempty"` // dns: names the scope serves
	HostsB    []BS      `json:"hostsb,omitempty"`
}

// RSpan: the scope's handler is the SPAN handler (mirrors packets to a TCP destination, then hands over to START)
type RSpan struct {
	Dest string `json:"dest"` // ok: the harness' mirror listener | refused: a port nobody listens on
	PT   int    `json:"pt"`   // packetType filter (0 none)
	RA   BS     `json:"ra"`   // remAddr filter (empty none)
	SW   string `json:"sw"`   // switchAddr filter: "" none | match | mismatch
}

// addresses of the mirror listener and of a closed port, set by cmdRef before any configuration is rendered
var mirrorAddr, refusedAddr string
type RCfg struct {
	Secrets []RSecret `json:"secrets"`
	Users   []RUser   `json:"users"`
	Deny    []RPrefix `json:"deny"`
	Allow   []RPrefix `json:"allow"`
}

// RPkt: the body of a request, described abstractly (encoded by the harness' own RFC layout code)
type RPkt struct {
	K       string `json:"k"` // start | cont | author | acct | raw
	Action  int    `json:"action"`
	Priv    int    `json:"priv"`
	AType   int    `json:"atype"`
	Service int    `json:"service"`
	Method  int    `json:"method"`
	Flags   int    `json:"flags"`
	User    BS     `json:"user"`
	Port    BS     `json:"port"`
	RAddr   BS     `json:"raddr"`
	Data    BS     `json:"data"`
	Msg     BS     `json:"msg"`
	Args    []BS   `json:"args"`
	Raw     BS     `json:"raw"`
}
type RStep struct {
	C        int  `json:"c"`
	Sid      int  `json:"sid"`
	Seq      int  `json:"seq"`
	Ty       int  `json:"ty"` // header type; 0 = derive from the body kind
	Min      int  `json:"min"`
	Fl       int  `json:"fl"`
	P        RPkt `json:"p"`
	EOF      bool `json:"eof,omitempty"`
	HoldSink bool `json:"holdsink,omitempty"` // like hold, but the handler is parked inside the accounting sink, before the record is formatted
	Hold     bool `json:"hold,omitempty"`     // park this request's handler at its first logger call while the following steps of OTHER connections run
	Pws      []BS `json:"pws,omitempty"`      // passwords carried by this step (labels for C18)
	Par      bool `json:"par,omitempty"`      // feed and go on without waiting for the reply (the next steps of OTHER connections overlap it)
	Cut      int  `json:"cut,omitempty"`      // drop this many octets from the end of the encoded body (the header announces the shortened length)
	CKey     BS   `json:"ckey,omitempty"`     // the key THE CLIENT obfuscates with (default: whatever key the server bound the connection to)
	Pre      BS   `json:"pre,omitempty"`      // proxy scenarios: octets sent before the packet (the PROXY line, well-formed or hostile)
}
type RConn struct {
	C    int    `json:"c"`
	Addr string `json:"addr"`
}
type RScen struct {
	ID      string  `json:"id"`
	Cfg     RCfg    `json:"cfg"`
	Conns   []RConn `json:"conns"`
	Steps   []RStep `json:"steps"`
	Iso     bool    `json:"iso,omitempty"`     // re-run every session alone afterwards (C09)
	Overlap bool    `json:"overlap,omitempty"` // requests of different connections are in flight at the same time
	LogOn   bool    `json:"log,omitempty"`     // record logger calls (C18)
	Pre     []RCfg  `json:"pre,omitempty"`     // configurations the same loader was given before this one (reload history)
	Level   int     `json:"level,omitempty"`   // unused by CapLog (all calls are recorded)
	Proxy   bool    `json:"proxy,omitempty"`   // the connections of this scenario go to a second real server started with SetUseProxy(true)
}

func (p *RPkt) encode() []byte {
	b1 := func(x BS) byte { return byte(len(x)) }
	cat := func(parts ...[]byte) []byte {
		var o []byte
		for _, q := range parts {
			o = append(o, q...)
		}
		return o
	}
	argLens := func() []byte {
		o := make([]byte, len(p.Args))
		for i, a := range p.Args {
			o[i] = byte(len(a))
		}
		return o
	}
	argCat := func() []byte {
		var o []byte
		for _, a := range p.Args {
			o = append(o, a...)
		}
		return o
	}
	switch p.K {
	case "start":
		return cat([]byte{byte(p.Action), byte(p.Priv), byte(p.AType), byte(p.Service), b1(p.User), b1(p.Port), b1(p.RAddr), b1(p.Data)}, p.User, p.Port, p.RAddr, p.Data)
	case "cont":
		return cat(u16(len(p.Msg)), u16(len(p.Data)), []byte{byte(p.Flags)}, p.Msg, p.Data)
	case "author":
		return cat([]byte{byte(p.Method), byte(p.Priv), byte(p.AType), byte(p.Service), b1(p.User), b1(p.Port), b1(p.RAddr), byte(len(p.Args))}, argLens(), p.User, p.Port, p.RAddr, argCat())
	case "acct":
		return cat([]byte{byte(p.Flags), byte(p.Method), byte(p.Priv), byte(p.AType), byte(p.Service), b1(p.User), b1(p.Port), b1(p.RAddr), byte(len(p.Args))}, argLens(), p.User, p.Port, p.RAddr, argCat())
	default:
		return []byte(p.Raw)
	}
}

func (p *RPkt) headerType() int {
	switch p.K {
	case "start", "cont":
		return 1
	case "author":
		return 2
	case "acct":
		return 3
	}
	return 1
}

// ---- configuration rendering ---------------------------------------------------------------

var hashCache = map[string]string{}

func bcryptHex(pw []byte) string {
	if h, ok := hashCache[string(pw)]; ok {
		return h
	}
	cost := xbcrypt.MinCost
	if strings.HasPrefix(string(pw), "slow-") {
		cost = 10 // a comparison that takes tens of milliseconds: room for another connection's login to overlap it
	}
	if strings.HasPrefix(string(pw), "vvslow-") {
		cost = 15 // more than two seconds
	}
	if strings.HasPrefix(string(pw), "vslow-") {
		cost = 14 // a comparison that takes more than a second: whatever a server does about slow requests happens
	}
	hb, err := xbcrypt.GenerateFromPassword(pw, cost)
	if err != nil {
		panic(err)
	}
	h := hex.EncodeToString(hb)
	hashCache[string(pw)] = h
	return h
}

func rAuth(a RAuth) *config.Authenticator {
	switch a.K {
	case "bcrypt":
		return &config.Authenticator{Type: config.BCRYPT, Options: map[string]string{"hash": bcryptHex(a.Pw)}}
	case "badhex":
		return &config.Authenticator{Type: config.BCRYPT, Options: map[string]string{"hash": "zz-not-hex"}}
	case "nohash":
		return &config.Authenticator{Type: config.BCRYPT, Options: map[string]string{}}
	case "unknown":
		return &config.Authenticator{Type: config.AuthenticatorType(77)}
	}
	return nil
}
func rAcct(on bool, kind string) *config.Accounter {
	if !on {
		return nil
	}
	if kind == "syslog" {
		return &config.Accounter{Name: "syslog", Type: config.SYSLOG}
	}
	if kind == "stderr" {
		return &config.Accounter{Name: "stderr", Type: config.STDERR} // a type the harness registers no factory for
	}
	return &config.Accounter{Name: "file", Type: config.FILE}
}
func rCommands(cs []RCommand) []config.Command {
	var out []config.Command
	for _, c := range cs {
		m := []string{}
		for _, x := range c.Match {
			m = append(m, string(x.S))
		}
		out = append(out, config.Command{Name: string(c.Name), Match: m, Action: config.Action(c.Action)})
	}
	return out
}
func rValues(vs []RValue) []config.Value {
	var out []config.Value
	for _, v := range vs {
		vals := []string{}
		for _, x := range v.Values {
			vals = append(vals, string(x))
		}
		out = append(out, config.Value{Name: string(v.Name), Values: vals, Optional: v.Opt})
	}
	return out
}
func rServices(ss []RService) []config.Service {
	var out []config.Service
	for _, s := range ss {
		out = append(out, config.Service{Name: string(s.Name), Match: rValues(s.Match), SetValues: rValues(s.Set), Optional: s.Opt})
	}
	return out
}

func renderCfg(c *RCfg) config.ServerConfig {
	var sc config.ServerConfig
	for _, s := range c.Secrets {
		ps := []string{}
		for _, p := range s.Prefixes {
			ps = append(ps, p.S)
		}
		pj, _ := json.Marshal(ps)
		h := config.Handler{Type: config.START}
		if s.NoHandler {
			h = config.Handler{Type: config.HandlerType(99)}
		}
		if s.Span != nil {
			o := map[string]string{"destination": mirrorAddr}
			if s.Span.Dest == "refused" {
				o["destination"] = refusedAddr
			}
			if s.Span.Dest == "none" {
				delete(o, "destination") // the handler factory then builds no handler for the scope
			}
			if s.Span.PT != 0 {
				o["packetType"] = []string{"", "Authenticate", "authorize", "ACCOUNTING"}[s.Span.PT]
			}
			if len(s.Span.RA) > 0 {
				o["remAddr"] = string(s.Span.RA)
			}
			switch s.Span.SW {
			case "match":
				o["switchAddr"] = o["destination"]
			case "mismatch":
				o["switchAddr"] = "[::1]:9"
			}
			h = config.Handler{Type: config.SPAN, Options: o}
		}
		if s.Kind == "dns" {
			hj, _ := json.Marshal(s.Hosts)
			sc.Secrets = append(sc.Secrets, config.SecretConfig{Name: s.Name, Secret: config.Keychain{Group: "g", Key: string(s.Key)}, Handler: h,
				Type: config.DNS, Options: map[string]string{"hosts": string(hj)}})
			continue
		}
		sc.Secrets = append(sc.Secrets, config.SecretConfig{Name: s.Name, Secret: config.Keychain{Group: "g", Key: string(s.Key)}, Handler: h,
			Type: config.PREFIX, Options: map[string]string{"prefixes": string(pj)}})
	}
	for _, u := range c.Users {
		cu := config.User{Name: string(u.Name), Scopes: append([]string{}, u.Scopes...), Authenticator: rAuth(u.Auth), Accounter: rAcct(u.Acct, u.AcctK),
			Commands: rCommands(u.Commands), Services: rServices(u.Services)}
		for _, g := range u.Groups {
			cu.Groups = append(cu.Groups, config.Group{Name: string(g.Name), Authenticator: rAuth(g.Auth), Accounter: rAcct(g.Acct, g.AcctK),
				Commands: rCommands(g.Commands), Services: rServices(g.Services)})
		}
		sc.Users = append(sc.Users, cu)
	}
	for _, p := range c.Deny {
		sc.PrefixDeny = append(sc.PrefixDeny, p.S)
	}
	for _, p := range c.Allow {
		sc.PrefixAllow = append(sc.PrefixAllow, p.S)
	}
	return sc
}

// ---- real wiring ---------------------------------------------------------------------------

type chanCfg struct{ ch chan config.ServerConfig }

func (c chanCfg) Config() chan config.ServerConfig { return c.ch }

type jsonSink struct {
	rec *Rec
	mu  sync.Mutex
	// one-shot gate: the next Printf parks before it formats its arguments (as a logger busy with another writer would)
	gmu     sync.Mutex
	parked  chan struct{}
	release chan struct{}
}

// ArmGate makes the next Printf park until the returned release channel is closed.
func (s *jsonSink) ArmGate() (parked, release chan struct{}) {
	s.gmu.Lock()
	defer s.gmu.Unlock()
	s.parked, s.release = make(chan struct{}), make(chan struct{})
	return s.parked, s.release
}

func (s *jsonSink) Disarm() {
	s.gmu.Lock()
	s.parked, s.release = nil, nil
	s.gmu.Unlock()
}

// Printf formats exactly like log.Logger does and records the line together with its JSON decoding.
func (s *jsonSink) Printf(format string, args ...interface{}) {
	s.gmu.Lock()
	p, rel := s.parked, s.release
	s.parked, s.release = nil, nil
	s.gmu.Unlock()
	if p != nil {
		close(p)
		<-rel
	}
	s.emit(fmt.Sprintf(format, args...), "file")
}

func (s *jsonSink) emit(line string, via string) {
	e := E{"e": "sink", "via": via, "line": line, "ok": false, "dec": V{}}
	var d struct {
		Flags, Method, PrivLvl, Type, Service *int
		User, Port, RemAddr                   *string
		Args                                  []string
	}
	if err := json.Unmarshal([]byte(line), &d); err == nil && d.Flags != nil && d.Method != nil && d.PrivLvl != nil && d.Type != nil && d.Service != nil &&
		d.User != nil && d.Port != nil && d.RemAddr != nil {
		args := [][]int{}
		for _, a := range d.Args {
			args = append(args, S(a))
		}
		e["ok"] = true
		e["dec"] = V{"flags": *d.Flags, "method": *d.Method, "priv": *d.PrivLvl, "atype": *d.Type, "service": *d.Service,
			"user": S(*d.User), "port": S(*d.Port), "raddr": S(*d.RemAddr), "args": args}
	}
	s.rec.Emit(e)
}

type okSecret struct{}

func (okSecret) GetSecret(ctx context.Context, name, group string) ([]byte, error) {
	return nil, fmt.Errorf("no keychain entry for %s", name)
}

type refRun struct {
	rec     *Rec
	log     *CapLog
	sink    *jsonSink
	lis     *FakeListener
	srv     *tq.Server
	cancel  context.CancelFunc
	done    chan struct{}
	sidPool []uint32
	loaders map[string]*loader.Loader
	cur     *loader.Loader
	curScen *RScen
	nconn   int
	connKey map[int][]byte
	mu      sync.Mutex
	byAddr  map[string]*refConnState
	sysAcc  *sysacct.Accounter
	sysLn   net.Listener
	sysConn net.Conn
	sysRd   *bufio.Reader
	lastCh  chanCfg // the configuration channel of the loader built last
	mirLn   *net.TCPListener
	lisP    *FakeListener
	doneP   chan struct{}
}

type refConnState struct {
	c    int
	conn *FakeConn
	key  []byte
	regs int
}

func (r *refRun) loaderFor(c *RCfg) *loader.Loader {
	return r.loaderFor2(c, true)
}

// loaderAfter: a brand-new loader that is given the configurations of pre, one after the other, and then c. Every
// configuration is sent three times over the capacity-1 channel: the third send can only complete once the update
// loop has taken the second copy, i.e. after it has finished installing the first - no hook and no waiting involved.
func (r *refRun) loaderAfter(pre []RCfg, c *RCfg) *loader.Loader {
	ld := r.loaderFor2(&pre[0], false)
	ch := r.lastCh
	rest := append(append([]RCfg{}, pre[1:]...), *c)
	for i := range rest {
		for k := 0; k < 3; k++ {
			select {
			case ch.ch <- renderCfg(&rest[i]):
			case <-time.After(20 * time.Second):
				panic("the loader's update loop does not take configurations any more")
			}
		}
	}
	return ld
}

// loaderFor2: cached=false builds a brand-new loader (and with it new handlers, authorizers, accounters): the
// isolated re-run of a session must not see anything an earlier run left behind
func (r *refRun) loaderFor2(c *RCfg, cached bool) *loader.Loader {
	kb, _ := json.Marshal(c)
	if l, ok := r.loaders[string(kb)]; ok && cached {
		return l
	}
	acc, err := local.New(r.log, local.SetLogSink(r.sink))
	if err != nil {
		panic(err)
	}
	ch := chanCfg{ch: make(chan config.ServerConfig, 1)}
	ld, err := loader.NewLoader(context.Background(), ch,
		loader.SetLoggerProvider(r.log),
		loader.SetKeychainProvider(secret.New()),
		loader.SetConfigProvider(config.New()),
		loader.SetAuthorizerProvider(stringy.New(r.log)),
		loader.RegisterSecretProviderType(config.PREFIX, prefix.New(r.log)),
		loader.RegisterSecretProviderType(config.DNS, dnsprov.New(r.log)),
		loader.RegisterHandlerType(config.START, handlers.NewStart(r.log)),
		loader.RegisterHandlerType(config.SPAN, handlers.NewSpan(r.log)),
		loader.RegisterAuthenticator(config.BCRYPT, bcrypt.New(r.log, okSecret{})),
		loader.RegisterAccounter(config.FILE, acc),
		loader.RegisterAccounter(config.SYSLOG, r.syslogAccounter()),
	)
	if err != nil {
		panic(err)
	}
	ch.ch <- renderCfg(c)
	ld.BlockUntilLoaded()
	r.lastCh = ch
	if cached {
		r.loaders[string(kb)] = ld
	}
	return ld
}

// SecretProvider given to the real server: the real loader, observed.
func (r *refRun) Get(ctx context.Context, remote net.Addr) ([]byte, tq.Handler, error) {
	key, h, err := r.cur.Get(ctx, remote)
	r.mu.Lock()
	st := r.byAddr[remote.String()]
	r.mu.Unlock()
	c := 0
	if st != nil {
		c = st.c
		st.key = key
		if st.conn != nil {
			st.conn.Extra = E{"sk": B(key)}
		}
	}
	ok := err == nil && key != nil && h != nil
	kk := key
	if kk == nil {
		kk = []byte{}
	}
	r.rec.Emit(E{"e": "lookup", "c": c, "ok": ok, "key": B(kk)})
	if !ok {
		return key, h, err
	}
	return key, &obsHandler{run: r, st: st, inner: h, hid: 0}, nil
}

// obsHandler / obsResp: observe which handler value runs for which packet and what it does with the response
type obsHandler struct {
	run   *refRun
	st    *refConnState
	inner tq.Handler
	hid   int
}

func (h *obsHandler) Handle(resp tq.Response, req tq.Request) {
	hd := req.Header
	c := 0
	if h.st != nil {
		c = h.st.c
	}
	h.run.rec.Emit(E{"e": "inv", "c": c, "hid": h.hid, "sid": U32(uint32(hd.SessionID)), "seq": int(hd.SeqNo), "ty": int(hd.Type),
		"maj": int(hd.Version.MajorVersion), "min": int(hd.Version.MinorVersion), "fl": int(hd.Flags), "b": B(req.Body)})
	or := &obsResp{Response: resp, h: h}
	func() {
		defer func() {
			if p := recover(); p != nil {
				h.run.rec.Emit(E{"e": "panic", "c": c, "where": "handler", "msg": fmt.Sprint(p)})
				h.run.rec.w.Flush()
				panic(p)
			}
		}()
		h.inner.Handle(or, req)
	}()
	h.run.rec.Emit(E{"e": "ret", "c": c})
}

type obsResp struct {
	tq.Response
	h *obsHandler
}

func (o *obsResp) c() int {
	if o.h.st != nil {
		return o.h.st.c
	}
	return 0
}
func (o *obsResp) Next(n tq.Handler) {
	if n == nil {
		o.Response.Next(nil)
		return
	}
	id := 1
	if o.h.st != nil {
		o.h.st.regs++
		id = o.h.st.regs
	}
	o.h.run.rec.Emit(E{"e": "reg", "c": o.c(), "id": id})
	o.Response.Next(&obsHandler{run: o.h.run, st: o.h.st, inner: n, hid: id})
}
func (o *obsResp) Reply(v tq.EncoderDecoder) (int, error) {
	o.h.run.rec.Emit(E{"e": "rep", "c": o.c()})
	return o.Response.Reply(v)
}
func (o *obsResp) ReplyWithContext(ctx context.Context, v tq.EncoderDecoder, w ...tq.Writer) (int, error) {
	o.h.run.rec.Emit(E{"e": "rep", "c": o.c()})
	return o.Response.ReplyWithContext(ctx, v, w...)
}

func (r *refRun) start() {
	ctx, cancel := context.WithCancel(context.Background())
	r.cancel = cancel
	r.lis = NewFakeListener(nil)
	r.srv = tq.NewServer(r.log, r)
	r.done = make(chan struct{})
	go func() {
		r.srv.Serve(ctx, r.lis)
		close(r.done)
	}()
	// the same wiring once more with the proxy option on (scenarios with "proxy": true)
	r.lisP = NewFakeListener(nil)
	srvP := tq.NewServer(r.log, r, tq.SetUseProxy(true))
	r.doneP = make(chan struct{})
	go func() {
		srvP.Serve(ctx, r.lisP)
		close(r.doneP)
	}()
}
func (r *refRun) stop() {
	r.cancel()
	r.lis.Kick()
	r.lisP.Kick()
	<-r.done
	<-r.doneP
}

// sidFor: the session id an abstract session number stands for. Numbers below 1000 share the pool of four ids (so that
// scenarios meet the same ids again); numbers from 1000 on get an id of their own (crowds of sessions on one connection).
func (r *refRun) sidFor(n int) uint32 {
	if n < 1000 {
		return r.sidPool[n%len(r.sidPool)]
	}
	return r.sidPool[0] ^ (uint32(n-999) * 2654435761)
}

func parseAddr(s string) *net.TCPAddr {
	ip := net.ParseIP(s)
	if ip == nil {
		panic("bad addr " + s)
	}
	if strings.Contains(s, ".") && !strings.Contains(s, ":") {
		ip = ip.To4() // 4-octet form
	}
	return &net.TCPAddr{IP: ip, Port: 40000}
}

func (r *refRun) open(c int, addr string, extra E) *refConnState {
	r.mu.Lock()
	r.nconn++
	nc := r.nconn
	r.mu.Unlock()
	ta := parseAddr(addr)
	ta.Port = 10000 + nc%50000
	conn := NewFakeConn(c, ta, r.rec)
	conn.quiet = true
	st := &refConnState{c: c, conn: conn}
	r.mu.Lock()
	r.byAddr[ta.String()] = st
	r.mu.Unlock()
	ev := E{"e": "open", "c": c, "addr": B(ta.IP), "as": addr}
	var secs []RSecret
	if r.curScen != nil {
		secs = r.curScen.Cfg.Secrets
	}
	for _, sec := range secs {
		if sec.Kind == "dns" {
			// environment observation: what the resolver of this machine answers for the address (the DNS provider asks the same)
			names, _ := net.LookupAddr(ta.IP.String())
			nl := [][]int{}
			for _, n := range names {
				nl = append(nl, B([]byte(n)))
			}
			ev["names"] = nl
			break
		}
	}
	for k, v := range extra {
		ev[k] = v
	}
	r.rec.Emit(ev)
	if r.curScen != nil && r.curScen.Proxy {
		r.lisP.Offer(conn)
	} else {
		r.lis.Offer(conn)
	}
	conn.WaitQuiesce()
	return st
}

func (r *refRun) feed(st *refConnState, s *RStep, i int) bool {
	closed := r.feed0(st, s, i)
	if !s.Hold && !s.HoldSink && !s.Par {
		r.drainSyslog()
	}
	return closed
}

func (r *refRun) feed0(st *refConnState, s *RStep, i int) bool {
	if st.conn.IsClosed() {
		return true
	}
	if s.EOF {
		r.rec.Emit(E{"e": "eof", "c": st.c})
		st.conn.EOF()
		return st.conn.WaitQuiesce()
	}
	if s.P.K == "bytes" {
		// a raw octet stream, not framed as a packet (hostile input for C14)
		r.rec.Emit(E{"e": "feedraw", "c": st.c, "n": len(s.P.Raw)})
		st.conn.Feed([]byte(s.P.Raw))
		return st.conn.WaitQuiesce()
	}
	body := s.P.encode()
	if s.Cut > 0 && s.Cut < len(body) {
		body = body[:len(body)-s.Cut]
	}
	sid := r.sidFor(s.Sid)
	ty := s.Ty
	if ty == 0 {
		ty = s.P.headerType()
	}
	ver := byte(0xc0 | s.Min&0xf)
	n := len(body)
	hdr := []byte{ver, byte(ty), byte(s.Seq), byte(s.Fl), byte(sid >> 24), byte(sid >> 16), byte(sid >> 8), byte(sid), byte(n >> 24), byte(n >> 16), byte(n >> 8), byte(n)}
	wire := body
	ck := st.key
	if len(s.CKey) > 0 {
		ck = []byte(s.CKey)
	}
	if s.Fl&1 == 0 {
		wire = obfuscate(ck, sid, ver, byte(s.Seq), body)
	}
	pws := [][]int{}
	for _, p := range s.Pws {
		pws = append(pws, B(p))
	}
	r.rec.Emit(E{"e": "feed", "c": st.c, "i": i, "h": B(hdr), "b": B(wire), "cb": B(body), "sk": B(st.key), "ck": B(ck), "pws": pws})
	st.conn.Feed(append(append(append([]byte{}, s.Pre...), hdr...), wire...))
	if s.Hold || s.HoldSink || s.Par {
		return false // the caller waits for the gate / for all overlapping requests, not for quiescence
	}
	return st.conn.WaitQuiesce()
}

func (r *refRun) runScenario(sc *RScen) {
	r.curScen = sc
	if len(sc.Pre) > 0 {
		r.cur = r.loaderAfter(sc.Pre, &sc.Cfg)
	} else {
		r.cur = r.loaderFor(&sc.Cfg)
	}
	r.byAddr = map[string]*refConnState{}
	r.log.on = sc.LogOn
	// candidate tokens: every user message / data field of the scenario and every shared secret. The logger
	// reports which of them a call shows; whether a token was a password at that moment is decided by TLC.
	toks := []string{}
	for _, s := range sc.Steps {
		for _, p := range []BS{s.P.Msg, s.P.Data} {
			if len(p) >= 4 {
				toks = append(toks, string(p))
			}
		}
	}
	for _, s := range sc.Cfg.Secrets {
		if len(s.Key) >= 4 {
			toks = append(toks, string(s.Key))
		}
	}
	r.log.Tokens = toks
	base := ReadG4()
	r.rec.Emit(E{"e": "reset", "sc": sc.ID, "cfg": sc.Cfg})
	if sc.Overlap {
		r.rec.Emit(E{"e": "overlap"})
	}
	var held *refConnState
	var release chan struct{}
	var inflight []*refConnState // connections with a request fed and not yet waited for (par steps)
	conns := map[int]*refConnState{}
	addr := map[int]string{}
	for _, c := range sc.Conns {
		addr[c.C] = c.Addr
	}
	for i := range sc.Steps {
		s := &sc.Steps[i]
		st := conns[s.C]
		if st == nil {
			a, ok := addr[s.C]
			if !ok {
				continue
			}
			// a connection is opened right before its first step (so one may open after another has closed)
			st = r.open(s.C, a, nil)
			conns[s.C] = st
		}
		if s.Par {
			r.feed(st, s, i+1)
			inflight = append(inflight, st)
			continue
		}
		for _, x := range inflight {
			x.conn.WaitQuiesce()
		}
		inflight = nil
		if held != nil && st == held {
			// the held connection is needed again: let its handler finish first
			close(release)
			held.conn.WaitQuiesce()
			held = nil
		}
		if (s.Hold || s.HoldSink) && held == nil {
			var parked, rel chan struct{}
			if s.HoldSink {
				parked, rel = r.sink.ArmGate()
			} else {
				parked, rel = r.log.ArmGate()
			}
			r.feed(st, s, i+1)
			quiet := make(chan struct{})
			go func() { st.conn.WaitQuiesce(); close(quiet) }()
			select {
			case <-parked:
				held, release = st, rel
				r.rec.Emit(E{"e": "held", "c": st.c})
			case <-quiet:
				r.log.Disarm() // this path makes no logger call: nothing to hold
				r.sink.Disarm()
			}
			continue
		}
		s2 := *s
		s2.Hold, s2.HoldSink, s2.Par = false, false, false
		r.feed(st, &s2, i+1)
	}
	for _, x := range inflight {
		x.conn.WaitQuiesce()
	}
	inflight = nil
	if held != nil {
		close(release)
		held.conn.WaitQuiesce()
		held = nil
	}
	for _, c := range sc.Conns {
		st := conns[c.C]
		if st == nil {
			st = r.open(c.C, c.Addr, nil)
			conns[c.C] = st
		}
		if !st.conn.IsClosed() {
			r.rec.Emit(E{"e": "eof", "c": st.c})
			st.conn.EOF()
			st.conn.WaitQuiesce()
		}
	}
	g := ReadG4().Sub(base)
	r.rec.Emit(E{"e": "g", "at": "end", "gs": g.Sess, "gh": g.Hand})
	if sc.Iso {
		// every session alone, on a fresh connection from the same address
		type key struct{ c, sid int }
		seen := map[key]bool{}
		k := 100
		for _, s := range sc.Steps {
			if s.EOF {
				continue
			}
			kk := key{s.C, s.Sid}
			if seen[kk] {
				continue
			}
			seen[kk] = true
			k++
			sidv := r.sidFor(s.Sid)
			r.cur = r.loaderFor2(&sc.Cfg, false) // "the only session the server ever sees": fresh configuration objects
			st := r.open(k, addr[s.C], E{"iso": true, "of": s.C, "sid": U32(sidv)})
			for i := range sc.Steps {
				t := &sc.Steps[i]
				if t.C == s.C && t.Sid == s.Sid && !t.EOF {
					t2 := *t
					t2.Hold, t2.HoldSink, t2.Par = false, false, false
					r.feed(st, &t2, i+1)
				}
			}
			if !st.conn.IsClosed() {
				st.conn.EOF()
				st.conn.WaitQuiesce()
			}
		}
	}
	r.collectMirrors()
	r.rec.Emit(E{"e": "end"})
	r.log.on = false
}

// collectMirrors: what the span destination has received. The span handler writes to its connection before the reply
// reaches the client, so when the scenario is over every mirrored octet already sits in the kernel's queue of the
// accepted connection: a read with a short deadline returns it at once. Connections are reported in the order they
// were dialled (requests are fed one at a time).
func (r *refRun) collectMirrors() {
	if r.mirLn == nil {
		return
	}
	uses := false
	for _, s := range r.curScen.Cfg.Secrets {
		uses = uses || s.Span != nil
	}
	if !uses {
		return
	}
	k := 0
	for {
		r.mirLn.SetDeadline(time.Now().Add(40 * time.Millisecond))
		c, err := r.mirLn.Accept()
		if err != nil {
			break
		}
		k++
		var got []byte
		buf := make([]byte, 1<<16)
		for {
			c.SetReadDeadline(time.Now().Add(40 * time.Millisecond))
			n, err := c.Read(buf)
			got = append(got, buf[:n]...)
			if err != nil {
				break
			}
		}
		c.Close()
		r.rec.Emit(E{"e": "mir", "k": k, "b": B(got)})
	}
}

// cmdRef <scenarios.ndjson> <trace.ndjson> <seed>
func cmdRef(args []string) {
	in, out := args[0], args[1]
	seed := int64(1)
	if len(args) > 2 {
		fmt.Sscan(args[2], &seed)
	}
	rec := NewRec(out)
	defer rec.Close()
	r := &refRun{rec: rec, log: NewCapLog(rec, false), sink: &jsonSink{rec: rec}, loaders: map[string]*loader.Loader{}}
	rng := newRand(seed)
	for i := 0; i < 4; i++ {
		r.sidPool = append(r.sidPool, rng.Uint32())
	}
	// two session ids that differ only in the upper half (a table keyed too coarsely would merge them)
	r.sidPool[3] = r.sidPool[2] ^ 0x00010000
	if ln, err := net.Listen("tcp6", "[::1]:0"); err == nil {
		r.mirLn = ln.(*net.TCPListener)
		mirrorAddr = ln.Addr().String()
		if l2, err := net.Listen("tcp6", "[::1]:0"); err == nil {
			refusedAddr = l2.Addr().String()
			l2.Close()
		}
		defer ln.Close()
	}
	r.start()
	f, err := os.Open(in)
	if err != nil {
		panic(err)
	}
	defer f.Close()
	rd := bufio.NewReaderSize(f, 1<<20)
	n := 0
	for {
		line, err := rd.ReadBytes('\n')
		if len(line) > 1 {
			var sc RScen
			if e := json.Unmarshal(line, &sc); e != nil {
				panic(fmt.Errorf("bad scenario: %v: %.200s", e, line))
			}
			r.runScenario(&sc)
			n++
		}
		if err != nil {
			break
		}
	}
	r.stop()
	fmt.Printf("{\"scenarios\":%d,\"events\":%d}\n", n, rec.N)
}

// ---- syslog accounter: the real syslog.Writer dials a loopback TCP listener of the harness, which is the sink ----

type sysLogAdapter struct{ l *CapLog }

func (a sysLogAdapter) Infof(format string, args ...interface{}) {
	a.l.Infof(context.Background(), format, args...)
}
func (a sysLogAdapter) Errorf(format string, args ...interface{}) {
	a.l.Errorf(context.Background(), format, args...)
}

func (r *refRun) syslogAccounter() *sysacct.Accounter {
	if r.sysAcc != nil {
		return r.sysAcc
	}
	ln, err := net.Listen("tcp", "127.0.0.1:0")
	if err != nil {
		panic(err)
	}
	r.sysLn = ln
	acceptCh := make(chan net.Conn, 1)
	go func() {
		c, err := ln.Accept()
		if err == nil {
			acceptCh <- c
		}
	}()
	w, err := gosyslog.Dial("tcp", ln.Addr().String(), gosyslog.LOG_INFO|gosyslog.LOG_LOCAL0, "tacquito")
	if err != nil {
		panic(err)
	}
	r.sysConn = <-acceptCh
	r.sysRd = bufio.NewReader(r.sysConn)
	r.sysAcc = sysacct.New(sysLogAdapter{r.log}, w)
	return r.sysAcc
}

// drainSyslog reads what the syslog accounter has written so far (loopback TCP: once Write returned the octets are
// readable) and records each line's message part as a sink event.
func (r *refRun) drainSyslog() {
	if r.sysConn == nil {
		return
	}
	for {
		r.sysConn.SetReadDeadline(time.Now().Add(3 * time.Millisecond))
		line, err := r.sysRd.ReadString('\n')
		if len(line) > 0 && err == nil {
			msg := line
			if k := strings.Index(line, "]: "); k >= 0 {
				msg = line[k+3:]
			}
			msg = strings.TrimRight(msg, "\n")
			(&jsonSink{rec: r.rec}).emit(msg, "syslog")
			continue
		}
		if err != nil {
			return
		}
	}
}
