package main

import "crypto/md5"

// obfuscate is used ONLY to construct inputs (client packets obfuscated under some key).
// It is never an oracle: what the server sees for these inputs, and what the right answer is,
// is recomputed by TLC from spec/Crypt.tla on the recorded wire bytes.
func obfuscate(key []byte, sid uint32, ver byte, seq byte, body []byte) []byte {
	out := make([]byte, len(body))
	var last []byte
	pad := make([]byte, 0, len(body)+16)
	for len(pad) < len(body) {
		h := md5.New()
		h.Write([]byte{byte(sid >> 24), byte(sid >> 16), byte(sid >> 8), byte(sid)})
		h.Write(key)
		h.Write([]byte{ver, seq})
		h.Write(last)
		last = h.Sum(nil)
		pad = append(pad, last...)
	}
	for i := range body {
		out[i] = body[i] ^ pad[i]
	}
	return out
}
