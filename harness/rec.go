package main

import (
	"bufio"
	"encoding/json"
	"os"
	"sync"
)

// Rec is the trace recorder: one JSON object per line, totally ordered by the mutex.
type Rec struct {
	Null bool // drop everything without taking the mutex (the race workload must not be serialised by the recorder)
	mu   sync.Mutex
	f    *os.File
	w    *bufio.Writer
	N    int
}

func NewRec(path string) *Rec {
	f, err := os.Create(path)
	if err != nil {
		panic(err)
	}
	return &Rec{f: f, w: bufio.NewWriterSize(f, 1<<20)}
}

// E is one event; keys are short because TLC parses every byte of it.
type E map[string]interface{}

func (r *Rec) Emit(e E) {
	if r == nil || r.Null {
		return
	}
	b, err := json.Marshal(e)
	if err != nil {
		panic(err)
	}
	r.mu.Lock()
	r.w.Write(b)
	r.w.WriteByte('\n')
	r.N++
	r.mu.Unlock()
}

func (r *Rec) Close() {
	if r == nil || r.Null {
		return
	}
	r.mu.Lock()
	r.w.Flush()
	r.f.Close()
	r.mu.Unlock()
}

// B renders octets as a JSON array of numbers (json.Marshal would base64 a []byte).
func B(b []byte) []int {
	out := make([]int, len(b))
	for i, x := range b {
		out[i] = int(x)
	}
	return out
}

func S(s string) []int { return B([]byte(s)) }

func U32(v uint32) []int {
	return []int{int(v >> 24), int(v >> 16 & 0xff), int(v >> 8 & 0xff), int(v & 0xff)}
}

func fromInts(a []int) []byte {
	out := make([]byte, len(a))
	for i, x := range a {
		out[i] = byte(x)
	}
	return out
}

func readFile(p string) (string, error) {
	b, err := os.ReadFile(p)
	return string(b), err
}
