package main

import (
	"fmt"
	"io"
	"math/rand"
	"net"
	"time"

	tq "github.com/facebookincubator/tacquito"
)

// cmdClient <out> <seed> <n>: drives the real tacquito.Client over loopback TCP against a scripted
// raw peer. Records the exact octets the client put on the wire for a request (csend) and what the
// client returned for the exact octets the peer wrote (crecv). TLC judges both with Wire/Crypt.tla.
func cmdClient(args []string) {
	out := args[0]
	var seed int64 = 1
	n := 200
	fmt.Sscan(args[1], &seed)
	fmt.Sscan(args[2], &n)
	rec := NewRec(out)
	defer rec.Close()
	rng := rand.New(rand.NewSource(seed))
	ln, err := net.Listen("tcp", "127.0.0.1:0")
	if err != nil {
		ln, err = net.Listen("tcp6", "[::1]:0")
		if err != nil {
			panic(err)
		}
	}
	defer ln.Close()
	network := "tcp"
	if ln.Addr().(*net.TCPAddr).IP.To4() == nil {
		network = "tcp6"
	}
	lens := []int{0, 1, 5, 6, 15, 16, 17, 31, 32, 33, 47, 48, 49, 63, 64, 65, 95, 96, 107, 120, 200, 255, 256, 257, 1000}
	keyLens := []int{0, 1, 6, 16, 51, 70, 123, 300}
	huge := 1 + n/400
	// secrets of consecutive clients are adjacent sub-slices of one buffer
	mk := func() []byte {
		k := make([]byte, keyLens[rng.Intn(len(keyLens))])
		rng.Read(k)
		if rng.Intn(4) == 0 {
			k = []byte("fooman")
		}
		return k
	}
	arena := make([]byte, 4096)
	var placedNext, wantNext []byte
	for i := 0; i < n; i++ {
		var key, use []byte // key: the intended secret (logged); use: the slice handed to the client
		if placedNext != nil {
			key, use = wantNext, placedNext
			placedNext = nil
		} else {
			key = mk()
			a := copy(arena, key)
			use = arena[0:a]
			wantNext = mk()
			b := copy(arena[a:], wantNext)
			placedNext = arena[a : a+b]
		}
		h := tq.NewHeader(
			tq.SetHeaderVersion(tq.Version{MajorVersion: tq.MajorVersion, MinorVersion: uint8(rng.Intn(2))}),
			tq.SetHeaderType(tq.HeaderType(1+rng.Intn(3))),
			tq.SetHeaderSeqNo(1+2*rng.Intn(127)),
			tq.SetHeaderFlag(tq.HeaderFlag(rng.Intn(256))),
			tq.SetHeaderSessionID(tq.SessionID(rng.Uint32())),
		)
		if rng.Intn(10) < 7 {
			h.Flags.Clear(tq.UnencryptedFlag)
		}
		if rng.Intn(8) == 0 {
			h.SeqNo = tq.SequenceNumber([]int{1, 253, 255}[rng.Intn(3)])
		}
		bl := lens[rng.Intn(len(lens))]
		if huge > 0 && rng.Intn(n/huge+1) == 0 {
			huge--
			bl = 65536 - rng.Intn(2)*15
		}
		clear := make([]byte, bl)
		rng.Read(clear)
		// the reply the peer will send: a well-formed reply body of the packet type, obfuscated by the harness
		// (input construction only) under the same key, written in a few chunks
		rl := lens[rng.Intn(len(lens))]
		var rv tq.EncoderDecoder
		switch h.Type {
		case tq.Authenticate:
			rv = tq.NewAuthenReply(tq.SetAuthenReplyStatus(tq.AuthenStatus(1+rng.Intn(7))), tq.SetAuthenReplyServerMsg(pad(rl, 'r')))
		case tq.Authorize:
			rv = tq.NewAuthorReply(tq.SetAuthorReplyStatus(tq.AuthorStatusPassAdd), tq.SetAuthorReplyServerMsg(pad(rl, 'r')))
		default:
			rv = tq.NewAcctReply(tq.SetAcctReplyStatus(tq.AcctReplyStatusSuccess), tq.SetAcctReplyServerMsg(pad(rl, 'r')))
		}
		rclear := rfcEnc(rv)
		rseq := int(h.SeqNo) + 1
		var rbytes []byte
		if rseq <= 255 {
			rh := &tq.Header{Version: h.Version, Type: h.Type, SeqNo: tq.SequenceNumber(rseq), Flags: h.Flags, SessionID: h.SessionID, Length: uint32(len(rclear))}
			ver := h.Version.MajorVersion<<4 | h.Version.MinorVersion
			body := rclear
			if !h.Flags.Has(tq.UnencryptedFlag) {
				body = obfuscate(key, uint32(h.SessionID), ver, byte(rseq), rclear)
			}
			rbytes = append(rfcEnc(rh), body...)
		}
		var cuts []int
		if len(rbytes) > 0 && rng.Intn(2) == 0 {
			rest := len(rbytes)
			for rest > 0 && len(cuts) < 6 {
				k := 1 + rng.Intn(rest)
				if rng.Intn(3) == 0 {
					k = min(rest, []int{1, 11, 12, 13}[rng.Intn(4)])
				}
				cuts = append(cuts, k)
				rest -= k
			}
			if rest > 0 {
				cuts = append(cuts, rest)
			}
		}
		// peer
		type peerRes struct {
			raw []byte
			err error
		}
		pc := make(chan peerRes, 1)
		go func() {
			c, err := ln.Accept()
			if err != nil {
				pc <- peerRes{nil, err}
				return
			}
			defer c.Close()
			c.SetDeadline(time.Now().Add(10 * time.Second))
			hb := make([]byte, 12)
			if _, err := io.ReadFull(c, hb); err != nil {
				pc <- peerRes{hb[:0], err}
				return
			}
			l := int(hb[8])<<24 | int(hb[9])<<16 | int(hb[10])<<8 | int(hb[11])
			if l > 1<<20 {
				pc <- peerRes{hb, fmt.Errorf("absurd length")}
				return
			}
			bb := make([]byte, l)
			_, err = io.ReadFull(c, bb)
			pc <- peerRes{append(hb, bb...), err}
			if tc, ok := c.(*net.TCPConn); ok {
				tc.SetNoDelay(true)
			}
			if len(cuts) == 0 {
				c.Write(rbytes)
			} else {
				off := 0
				for _, k := range cuts {
					c.Write(rbytes[off : off+k])
					off += k
					time.Sleep(300 * time.Microsecond)
				}
			}
			// keep the connection open until the client is done reading
			io.Copy(io.Discard, c)
		}()
		cl, err := tq.NewClient(tq.SetClientDialer(network, ln.Addr().String(), use))
		if err != nil {
			panic(err)
		}
		hv := hdrJ(h)
		body := append(make([]byte, 0, len(clear)+1), clear...)
		pkt := tq.NewPacket(tq.SetPacketHeader(h), tq.SetPacketBody(body))
		hv["len"] = U32(uint32(len(clear)))
		var resp *tq.Packet
		var serr error
		if len(rbytes) > 0 {
			resp, serr = cl.Send(pkt)
		} else {
			serr = cl.SendOnly(pkt)
		}
		pr := <-pc
		rec.Emit(E{"e": "csend", "key": B(key), "hv": hv, "cb": B(clear), "wire": B(pr.raw), "perr": pr.err != nil})
		if len(rbytes) > 0 {
			e := E{"e": "crecv", "key": B(key), "wire": B(rbytes), "cuts": cuts, "ok": serr == nil && resp != nil, "hv": V{}, "b": []int{}}
			if cuts == nil {
				e["cuts"] = []int{}
			}
			if serr == nil && resp != nil && resp.Header != nil {
				e["hv"] = hdrJ(resp.Header)
				e["b"] = B(resp.Body)
			}
			rec.Emit(e)
		}
		cl.Close()
	}
	fmt.Printf("{\"events\":%d}\n", rec.N)
}
