package main

import (
	"fmt"
	"math/rand"
	"runtime"
	"runtime/debug"

	tq "github.com/facebookincubator/tacquito"
)

// ---- value <-> JSON (field names are those of spec/Wire.tla) ------------------------------

type V = map[string]interface{}

func argsJ(a tq.Args) [][]int {
	out := make([][]int, len(a))
	for i, x := range a {
		out[i] = S(string(x))
	}
	return out
}

func hdrJ(h *tq.Header) V {
	return V{"maj": int(h.Version.MajorVersion), "min": int(h.Version.MinorVersion), "ty": int(h.Type), "seq": int(h.SeqNo),
		"fl": int(h.Flags), "sid": U32(uint32(h.SessionID)), "len": U32(h.Length)}
}

func toJ(kind string, x interface{}) V {
	switch v := x.(type) {
	case *tq.Header:
		return hdrJ(v)
	case *tq.AuthenStart:
		return V{"action": int(v.Action), "priv": int(v.PrivLvl), "atype": int(v.Type), "service": int(v.Service),
			"user": S(string(v.User)), "port": S(string(v.Port)), "raddr": S(string(v.RemAddr)), "data": S(string(v.Data))}
	case *tq.AuthenReply:
		return V{"status": int(v.Status), "flags": int(v.Flags), "msg": S(string(v.ServerMsg)), "data": S(string(v.Data))}
	case *tq.AuthenContinue:
		return V{"flags": int(v.Flags), "msg": S(string(v.UserMessage)), "data": S(string(v.Data))}
	case *tq.AuthorRequest:
		return V{"method": int(v.Method), "priv": int(v.PrivLvl), "atype": int(v.Type), "service": int(v.Service),
			"user": S(string(v.User)), "port": S(string(v.Port)), "raddr": S(string(v.RemAddr)), "args": argsJ(v.Args)}
	case *tq.AuthorReply:
		return V{"status": int(v.Status), "msg": S(string(v.ServerMsg)), "data": S(string(v.Data)), "args": argsJ(v.Args)}
	case *tq.AcctRequest:
		return V{"flags": int(v.Flags), "method": int(v.Method), "priv": int(v.PrivLvl), "atype": int(v.Type), "service": int(v.Service),
			"user": S(string(v.User)), "port": S(string(v.Port)), "raddr": S(string(v.RemAddr)), "args": argsJ(v.Args)}
	case *tq.AcctReply:
		return V{"status": int(v.Status), "msg": S(string(v.ServerMsg)), "data": S(string(v.Data))}
	case *tq.Packet:
		if v.Header == nil {
			return V{"nohdr": true}
		}
		return V{"hdr": hdrJ(v.Header), "body": B(v.Body)}
	}
	panic("toJ: " + kind)
}

func newOf(kind string) tq.EncoderDecoder {
	switch kind {
	case "Header":
		return &tq.Header{}
	case "AuthenStart":
		return &tq.AuthenStart{}
	case "AuthenReply":
		return &tq.AuthenReply{}
	case "AuthenContinue":
		return &tq.AuthenContinue{}
	case "AuthorRequest":
		return &tq.AuthorRequest{}
	case "AuthorReply":
		return &tq.AuthorReply{}
	case "AcctRequest":
		return &tq.AcctRequest{}
	case "AcctReply":
		return &tq.AcctReply{}
	case "Packet":
		return &tq.Packet{}
	}
	panic("newOf " + kind)
}

var bodyKinds = []string{"AuthenStart", "AuthenReply", "AuthenContinue", "AuthorRequest", "AuthorReply", "AcctRequest", "AcctReply"}
var allKinds = append([]string{"Header"}, bodyKinds...)

// ---- manual RFC 8907 layouts: INPUT CONSTRUCTION ONLY (TLC re-checks canonicity with Wire!Dec) ----

func u16(n int) []byte { return []byte{byte(n >> 8), byte(n)} }

func rfcEnc(x interface{}) []byte {
	cat := func(parts ...[]byte) []byte {
		var o []byte
		for _, p := range parts {
			o = append(o, p...)
		}
		return o
	}
	argLens := func(a tq.Args) []byte {
		o := make([]byte, len(a))
		for i, x := range a {
			o[i] = byte(len(x))
		}
		return o
	}
	argCat := func(a tq.Args) []byte {
		var o []byte
		for _, x := range a {
			o = append(o, x...)
		}
		return o
	}
	switch v := x.(type) {
	case *tq.Header:
		s, n := uint32(v.SessionID), v.Length
		return []byte{v.Version.MajorVersion<<4 | v.Version.MinorVersion&0xf, byte(v.Type), byte(v.SeqNo), byte(v.Flags),
			byte(s >> 24), byte(s >> 16), byte(s >> 8), byte(s), byte(n >> 24), byte(n >> 16), byte(n >> 8), byte(n)}
	case *tq.AuthenStart:
		return cat([]byte{byte(v.Action), byte(v.PrivLvl), byte(v.Type), byte(v.Service), byte(len(v.User)), byte(len(v.Port)), byte(len(v.RemAddr)), byte(len(v.Data))},
			[]byte(v.User), []byte(v.Port), []byte(v.RemAddr), []byte(v.Data))
	case *tq.AuthenReply:
		return cat([]byte{byte(v.Status), byte(v.Flags)}, u16(len(v.ServerMsg)), u16(len(v.Data)), []byte(v.ServerMsg), []byte(v.Data))
	case *tq.AuthenContinue:
		return cat(u16(len(v.UserMessage)), u16(len(v.Data)), []byte{byte(v.Flags)}, []byte(v.UserMessage), []byte(v.Data))
	case *tq.AuthorRequest:
		return cat([]byte{byte(v.Method), byte(v.PrivLvl), byte(v.Type), byte(v.Service), byte(len(v.User)), byte(len(v.Port)), byte(len(v.RemAddr)), byte(len(v.Args))},
			argLens(v.Args), []byte(v.User), []byte(v.Port), []byte(v.RemAddr), argCat(v.Args))
	case *tq.AuthorReply:
		return cat([]byte{byte(v.Status), byte(len(v.Args))}, u16(len(v.ServerMsg)), u16(len(v.Data)), argLens(v.Args), []byte(v.ServerMsg), []byte(v.Data), argCat(v.Args))
	case *tq.AcctRequest:
		return cat([]byte{byte(v.Flags), byte(v.Method), byte(v.PrivLvl), byte(v.Type), byte(v.Service), byte(len(v.User)), byte(len(v.Port)), byte(len(v.RemAddr)), byte(len(v.Args))},
			argLens(v.Args), []byte(v.User), []byte(v.Port), []byte(v.RemAddr), argCat(v.Args))
	case *tq.AcctReply:
		return cat(u16(len(v.ServerMsg)), u16(len(v.Data)), []byte{byte(v.Status)}, []byte(v.ServerMsg), []byte(v.Data))
	}
	panic("rfcEnc")
}

// ---- generators ---------------------------------------------------------------------------

type cgen struct {
	rng  *rand.Rand
	huge int // remaining budget of 64 KiB fields
}

var boundary8 = []int{0, 1, 2, 3, 16, 254, 255}
var over8 = []int{256, 257, 300, 511, 512}
var boundary16 = []int{0, 1, 2, 255, 256, 257}

func (g *cgen) text(n int, ascii bool) string {
	b := make([]byte, n)
	for i := range b {
		if ascii {
			b[i] = byte(32 + g.rng.Intn(95))
			if g.rng.Intn(40) == 0 {
				b[i] = byte(g.rng.Intn(128))
			}
		} else {
			b[i] = byte(g.rng.Intn(256))
		}
	}
	return string(b)
}

// len8: a length for a field with a one-octet length; fit=false may exceed the width
func (g *cgen) len8(fit bool) int {
	r := g.rng.Intn(100)
	switch {
	case r < 45:
		return g.rng.Intn(12)
	case r < 75:
		return boundary8[g.rng.Intn(len(boundary8))]
	case r < 90 || fit:
		return g.rng.Intn(256)
	default:
		return over8[g.rng.Intn(len(over8))]
	}
}

func (g *cgen) len16(fit bool) int {
	r := g.rng.Intn(100)
	switch {
	case r < 50:
		return g.rng.Intn(20)
	case r < 85:
		return boundary16[g.rng.Intn(len(boundary16))]
	case r < 95:
		return g.rng.Intn(2000)
	default:
		if g.huge > 0 {
			g.huge--
			if fit || g.rng.Intn(2) == 0 {
				return 65535 - g.rng.Intn(2)
			}
			return 65536 + g.rng.Intn(2)
		}
		return g.rng.Intn(300)
	}
}

func pick(rng *rand.Rand, vals []int, anyP int) int {
	if rng.Intn(100) < anyP {
		return rng.Intn(256)
	}
	return vals[rng.Intn(len(vals))]
}

var (
	eActions  = []int{1, 2, 4}
	eATypes   = []int{0, 1, 2, 3, 4, 5, 6}
	eServices = []int{0, 1, 2, 3, 4, 5, 6, 7, 8, 9}
	eMethods  = []int{0, 1, 2, 3, 4, 5, 6, 8, 16}
	eAuthenSt = []int{1, 2, 3, 4, 5, 6, 7}
	eAuthorSt = []int{1, 2, 16, 17}
	eAcctSt   = []int{1, 2}
	eAcctFl   = []int{2, 4, 8, 10, 0, 6, 12, 14, 255}
)

func (g *cgen) args(fit bool, acct bool) tq.Args {
	r := g.rng.Intn(100)
	n := 0
	switch {
	case r < 30:
		n = 0
	case r < 70:
		n = 1 + g.rng.Intn(3)
	case r < 90:
		n = g.rng.Intn(20)
	case r < 97 || fit:
		n = 250 + g.rng.Intn(6)
	default:
		n = 256 + g.rng.Intn(3)
	}
	a := make(tq.Args, n)
	for i := range a {
		l := g.len8(fit)
		if !acct && l < 2 && g.rng.Intn(10) != 0 {
			l = 2 + g.rng.Intn(10)
		}
		if n > 40 && l > 20 {
			l = 2 + g.rng.Intn(8)
		}
		a[i] = tq.Arg(g.text(l, g.rng.Intn(30) != 0))
	}
	return a
}

// value draws a value of the kind. fit: keep every field inside its wire width. anyP: percentage of
// enum fields drawn from 0..255 instead of the legal members.
func (g *cgen) value(kind string, fit bool, anyP int) tq.EncoderDecoder {
	rng := g.rng
	asc := func() bool { return rng.Intn(25) != 0 }
	switch kind {
	case "Header":
		h := &tq.Header{}
		h.Version = tq.Version{MajorVersion: 12, MinorVersion: uint8(rng.Intn(2))}
		if rng.Intn(100) < anyP {
			h.Version = tq.Version{MajorVersion: uint8(rng.Intn(16)), MinorVersion: uint8(rng.Intn(16))}
		}
		h.Type = tq.HeaderType(pick(rng, []int{1, 2, 3}, anyP))
		h.SeqNo = tq.SequenceNumber(rng.Intn(256))
		if rng.Intn(4) == 0 {
			h.SeqNo = tq.SequenceNumber([]int{0, 1, 2, 3, 254, 255}[rng.Intn(6)])
		}
		if !fit && rng.Intn(20) == 0 {
			h.SeqNo = tq.SequenceNumber(256 + rng.Intn(1000))
		}
		h.Flags = tq.HeaderFlag(rng.Intn(256))
		h.SessionID = tq.SessionID(rng.Uint32())
		switch rng.Intn(6) {
		case 0:
			h.Length = uint32([]int{0, 1, 255, 256, 65535, 65536, 65537, 1 << 24}[rng.Intn(8)])
		case 1:
			h.Length = rng.Uint32()
		default:
			h.Length = uint32(rng.Intn(65537))
		}
		return h
	case "AuthenStart":
		return &tq.AuthenStart{Action: tq.AuthenAction(pick(rng, eActions, anyP)), PrivLvl: tq.PrivLvl(pick(rng, []int{0, 1, 15, 7}, anyP)),
			Type: tq.AuthenType(pick(rng, eATypes, anyP)), Service: tq.AuthenService(pick(rng, eServices, anyP)),
			User: tq.AuthenUser(g.text(g.len8(fit), asc())), Port: tq.AuthenPort(g.text(g.len8(fit), asc())),
			RemAddr: tq.AuthenRemAddr(g.text(g.len8(fit), asc())), Data: tq.AuthenData(g.text(g.len8(fit), rng.Intn(3) != 0))}
	case "AuthenReply":
		return &tq.AuthenReply{Status: tq.AuthenStatus(pick(rng, eAuthenSt, anyP)), Flags: tq.AuthenReplyFlag(rng.Intn(256)),
			ServerMsg: tq.AuthenServerMsg(g.text(g.len16(fit), rng.Intn(4) != 0)), Data: tq.AuthenData(g.text(g.len16(fit), rng.Intn(2) != 0))}
	case "AuthenContinue":
		return &tq.AuthenContinue{Flags: tq.AuthenContinueFlag(rng.Intn(256)),
			UserMessage: tq.AuthenUserMessage(g.text(g.len16(fit), asc())), Data: tq.AuthenData(g.text(g.len16(fit), rng.Intn(2) != 0))}
	case "AuthorRequest":
		return &tq.AuthorRequest{Method: tq.AuthenMethod(pick(rng, eMethods, anyP)), PrivLvl: tq.PrivLvl(pick(rng, []int{0, 1, 15}, anyP)),
			Type: tq.AuthenType(pick(rng, eATypes, anyP)), Service: tq.AuthenService(pick(rng, eServices, anyP)),
			User: tq.AuthenUser(g.text(g.len8(fit), asc())), Port: tq.AuthenPort(g.text(g.len8(fit), asc())),
			RemAddr: tq.AuthenRemAddr(g.text(g.len8(fit), asc())), Args: g.args(fit, false)}
	case "AuthorReply":
		return &tq.AuthorReply{Status: tq.AuthorStatus(pick(rng, eAuthorSt, anyP)), Args: g.args(fit, false),
			ServerMsg: tq.AuthorServerMsg(g.text(g.len16(fit), asc())), Data: tq.AuthorData(g.text(g.len16(fit), asc()))}
	case "AcctRequest":
		return &tq.AcctRequest{Flags: tq.AcctRequestFlag(pick(rng, eAcctFl, anyP)), Method: tq.AuthenMethod(pick(rng, eMethods, anyP)),
			PrivLvl: tq.PrivLvl(pick(rng, []int{0, 1, 15}, anyP)), Type: tq.AuthenType(pick(rng, eATypes, anyP)), Service: tq.AuthenService(pick(rng, eServices, anyP)),
			User: tq.AuthenUser(g.text(g.len8(fit), asc())), Port: tq.AuthenPort(g.text(g.len8(fit), asc())),
			RemAddr: tq.AuthenRemAddr(g.text(g.len8(fit), asc())), Args: g.args(fit, true)}
	case "AcctReply":
		return &tq.AcctReply{Status: tq.AcctReplyStatus(pick(rng, eAcctSt, anyP)),
			ServerMsg: tq.AcctServerMsg(g.text(g.len16(fit), asc())), Data: tq.AcctData(g.text(g.len16(fit), asc()))}
	}
	panic("value " + kind)
}

// enumSweep: one value per enum member of each enum field, all 256 header flag octets,
// byte-distinguishing multi-byte values, distinct lengths per variable field.
func (g *cgen) enumSweep() []struct {
	k string
	v tq.EncoderDecoder
} {
	type kv = struct {
		k string
		v tq.EncoderDecoder
	}
	var out []kv
	for fl := 0; fl < 256; fl++ {
		out = append(out, kv{"Header", &tq.Header{Version: tq.Version{MajorVersion: 12, MinorVersion: uint8(fl & 1)}, Type: tq.HeaderType(1 + fl%3),
			SeqNo: tq.SequenceNumber(1 + fl%255), Flags: tq.HeaderFlag(fl), SessionID: 0x01020304, Length: 0x0102}})
	}
	for _, a := range eActions {
		for _, t := range eATypes[1:] {
			out = append(out, kv{"AuthenStart", &tq.AuthenStart{Action: tq.AuthenAction(a), PrivLvl: 3, Type: tq.AuthenType(t), Service: 5, User: "u", Port: "po", RemAddr: "rem", Data: "data"}})
		}
	}
	for _, s := range eServices {
		for p := 0; p < 16; p += 5 {
			out = append(out, kv{"AuthenStart", &tq.AuthenStart{Action: 1, PrivLvl: tq.PrivLvl(p), Type: 2, Service: tq.AuthenService(s), User: "us", Port: "p", RemAddr: "rem4", Data: "dat"}})
		}
	}
	for _, s := range eAuthenSt {
		out = append(out, kv{"AuthenReply", &tq.AuthenReply{Status: tq.AuthenStatus(s), Flags: tq.AuthenReplyFlag(s & 1), ServerMsg: "m", Data: "dd"}})
	}
	for f := 0; f < 4; f++ {
		out = append(out, kv{"AuthenContinue", &tq.AuthenContinue{Flags: tq.AuthenContinueFlag(f), UserMessage: "mm", Data: "d"}})
	}
	for _, m := range eMethods {
		for _, s := range eServices {
			out = append(out, kv{"AuthorRequest", &tq.AuthorRequest{Method: tq.AuthenMethod(m), PrivLvl: 1, Type: tq.AuthenType(m % 7), Service: tq.AuthenService(s),
				User: "u", Port: "po", RemAddr: "rem", Args: tq.Args{"service=shell", "cmd=show"}}})
			out = append(out, kv{"AcctRequest", &tq.AcctRequest{Flags: 2, Method: tq.AuthenMethod(m), PrivLvl: 15, Type: tq.AuthenType(s % 7), Service: tq.AuthenService(s),
				User: "us", Port: "p", RemAddr: "rem4", Args: tq.Args{"task_id=1", ""}}})
		}
	}
	for _, s := range eAuthorSt {
		out = append(out, kv{"AuthorReply", &tq.AuthorReply{Status: tq.AuthorStatus(s), Args: tq.Args{"a=b", "cc*dd"}, ServerMsg: "m", Data: "dd"}})
	}
	for _, s := range eAcctSt {
		out = append(out, kv{"AcctReply", &tq.AcctReply{Status: tq.AcctReplyStatus(s), ServerMsg: "mm", Data: "d"}})
	}
	for _, f := range eAcctFl {
		out = append(out, kv{"AcctRequest", &tq.AcctRequest{Flags: tq.AcctRequestFlag(f), Method: 6, PrivLvl: 1, Type: 1, Service: 1, User: "u", Port: "po", RemAddr: "rem", Args: tq.Args{"x=y"}}})
	}
	return out
}

// boundarySweep: every variable field of every body kind exactly at and one past its wire width
// (255/256 octets, 65535/65536 octets, 255/256 arguments, argument of 255/256 octets).
// minimalSweep: the smallest values of the argument-bearing bodies - every text field empty, arguments that are
// empty (accounting allows them), one or two octets long, in numbers from 1 to 255
func (g *cgen) minimalSweep() []struct {
	k string
	v tq.EncoderDecoder
} {
	type kv = struct {
		k string
		v tq.EncoderDecoder
	}
	var out []kv
	for _, n := range []int{1, 2, 3, 10, 100, 255} {
		for _, al := range []int{0, 1, 2} {
			args := make(tq.Args, n)
			for i := range args {
				args[i] = tq.Arg(pad(al, 'x'))
			}
			out = append(out, kv{"AcctRequest", &tq.AcctRequest{Flags: 2, Method: 6, PrivLvl: 1, Type: 1, Service: 1, Args: args}})
			out = append(out, kv{"AcctRequest", &tq.AcctRequest{Flags: 4, Method: 1, PrivLvl: 0, Type: 1, Service: 1, User: "u", Port: "p", Args: args}})
			if al == 2 {
				out = append(out, kv{"AuthorRequest", &tq.AuthorRequest{Method: 6, PrivLvl: 1, Type: 1, Service: 1, Args: args}})
				out = append(out, kv{"AuthorReply", &tq.AuthorReply{Status: 1, Args: args}})
			}
		}
	}
	return out
}

func (g *cgen) boundarySweep() []struct {
	k string
	v tq.EncoderDecoder
} {
	type kv = struct {
		k string
		v tq.EncoderDecoder
	}
	var out []kv
	t := func(n int) string { return pad(n, 'a') }
	for _, n := range []int{255, 256} {
		for f := 0; f < 4; f++ {
			l := [4]int{1, 2, 3, 4}
			l[f] = n
			out = append(out, kv{"AuthenStart", &tq.AuthenStart{Action: 1, PrivLvl: 1, Type: 2, Service: 1, User: tq.AuthenUser(t(l[0])), Port: tq.AuthenPort(t(l[1])), RemAddr: tq.AuthenRemAddr(t(l[2])), Data: tq.AuthenData(t(l[3]))}})
		}
		for f := 0; f < 3; f++ {
			l := [3]int{1, 2, 3}
			l[f] = n
			out = append(out, kv{"AuthorRequest", &tq.AuthorRequest{Method: 6, PrivLvl: 1, Type: 1, Service: 1, User: tq.AuthenUser(t(l[0])), Port: tq.AuthenPort(t(l[1])), RemAddr: tq.AuthenRemAddr(t(l[2])), Args: tq.Args{"a=b"}}})
			out = append(out, kv{"AcctRequest", &tq.AcctRequest{Flags: 2, Method: 6, PrivLvl: 1, Type: 1, Service: 1, User: tq.AuthenUser(t(l[0])), Port: tq.AuthenPort(t(l[1])), RemAddr: tq.AuthenRemAddr(t(l[2])), Args: tq.Args{"a=b"}}})
		}
		many := make(tq.Args, n)
		for i := range many {
			many[i] = tq.Arg("k=v")
		}
		out = append(out, kv{"AuthorRequest", &tq.AuthorRequest{Method: 6, PrivLvl: 1, Type: 1, Service: 1, User: "u", Args: many}})
		out = append(out, kv{"AuthorReply", &tq.AuthorReply{Status: 1, Args: many}})
		out = append(out, kv{"AcctRequest", &tq.AcctRequest{Flags: 2, Method: 6, PrivLvl: 1, Type: 1, Service: 1, User: "u", Args: many}})
		long := tq.Args{tq.Arg(t(n))}
		out = append(out, kv{"AuthorRequest", &tq.AuthorRequest{Method: 6, PrivLvl: 1, Type: 1, Service: 1, User: "u", Args: long}})
		out = append(out, kv{"AuthorReply", &tq.AuthorReply{Status: 1, Args: long}})
		out = append(out, kv{"AcctRequest", &tq.AcctRequest{Flags: 2, Method: 6, PrivLvl: 1, Type: 1, Service: 1, User: "u", Args: long}})
	}
	for _, n := range []int{65535, 65536} {
		out = append(out, kv{"AuthenReply", &tq.AuthenReply{Status: 1, ServerMsg: tq.AuthenServerMsg(t(n)), Data: "d"}})
		out = append(out, kv{"AuthenReply", &tq.AuthenReply{Status: 1, ServerMsg: "m", Data: tq.AuthenData(t(n))}})
		out = append(out, kv{"AuthenContinue", &tq.AuthenContinue{UserMessage: tq.AuthenUserMessage(t(n)), Data: "d"}})
		out = append(out, kv{"AuthenContinue", &tq.AuthenContinue{UserMessage: "m", Data: tq.AuthenData(t(n))}})
		out = append(out, kv{"AuthorReply", &tq.AuthorReply{Status: 1, ServerMsg: tq.AuthorServerMsg(t(n)), Data: "d"}})
		out = append(out, kv{"AuthorReply", &tq.AuthorReply{Status: 1, ServerMsg: "m", Data: tq.AuthorData(t(n))}})
		out = append(out, kv{"AcctReply", &tq.AcctReply{Status: 1, ServerMsg: tq.AcctServerMsg(t(n)), Data: "d"}})
		out = append(out, kv{"AcctReply", &tq.AcctReply{Status: 1, ServerMsg: "m", Data: tq.AcctData(t(n))}})
	}
	return out
}

// ---- operations -------------------------------------------------------------------------

func safeMarshal(v tq.EncoderDecoder) (b []byte, err error, panicked string) {
	defer func() {
		if r := recover(); r != nil {
			panicked = fmt.Sprint(r)
		}
	}()
	b, err = v.MarshalBinary()
	return
}

func safeUnmarshal(kind string, b []byte) (v tq.EncoderDecoder, err error, panicked string) {
	defer func() {
		if r := recover(); r != nil {
			panicked = fmt.Sprint(r)
		}
	}()
	v = newOf(kind)
	err = tq.Unmarshal(b, v)
	return
}

// roundTrip: encode, and when that succeeds decode the bytes again (events "rt")
func roundTrip(rec *Rec, kind string, v tq.EncoderDecoder) {
	e := E{"e": "rt", "k": kind, "v": toJ(kind, v)}
	b, err, pn := safeMarshal(v)
	e["ok"] = err == nil && pn == ""
	e["panic"] = pn != ""
	if err == nil && pn == "" {
		e["b"] = B(b)
		v2, err2, pn2 := safeUnmarshal(kind, b)
		e["ok2"] = err2 == nil && pn2 == ""
		if err2 == nil && pn2 == "" {
			e["v2"] = toJ(kind, v2)
		} else {
			e["v2"] = V{}
		}
	} else {
		e["b"] = []int{}
		e["ok2"] = false
		e["v2"] = V{}
	}
	rec.Emit(e)
}

const canary = 0xA5

// decodeFirst: decode bytes (placed in a slice with canary-filled spare capacity, under recover and
// between two MemStats readings); when that succeeds re-encode and decode again (events "df")
func decodeFirst(rec *Rec, kind string, in []byte, spare int, reenc bool) {
	buf := make([]byte, len(in), len(in)+spare)
	copy(buf, in)
	full := buf[:cap(buf)]
	for i := len(in); i < len(full); i++ {
		full[i] = canary
	}
	var m0, m1 runtime.MemStats
	runtime.ReadMemStats(&m0)
	v, err, pn := safeUnmarshal(kind, buf)
	runtime.ReadMemStats(&m1)
	e := E{"e": "df", "k": kind, "b": B(in), "spare": spare, "panic": pn != "", "pmsg": pn, "ok": err == nil && pn == "",
		"alloc": int(m1.TotalAlloc - m0.TotalAlloc)}
	e["v"] = V{}
	e["ok2"] = false
	e["ok3"] = false
	e["v3"] = V{}
	if err == nil && pn == "" {
		e["v"] = toJ(kind, v)
		if reenc && kind != "Packet" {
			b2, err2, pn2 := safeMarshal(v)
			e["ok2"] = err2 == nil && pn2 == ""
			if err2 == nil && pn2 == "" {
				v3, err3, pn3 := safeUnmarshal(kind, b2)
				e["ok3"] = err3 == nil && pn3 == ""
				if err3 == nil && pn3 == "" {
					e["v3"] = toJ(kind, v3)
				}
			}
		}
	}
	rec.Emit(e)
}

// decodeAgain: decode b1 into a value, then b2 into the SAME value; what is recorded is the outcome of the second decode
// (event "df" for b2, marked again: judged exactly like a first decode of b2)
func decodeAgain(rec *Rec, kind string, b1, b2 []byte) {
	v := newOf(kind)
	if v == nil {
		return
	}
	func() {
		defer func() { recover() }()
		v.UnmarshalBinary(append([]byte(nil), b1...))
	}()
	var err error
	pn := ""
	func() {
		defer func() {
			if p := recover(); p != nil {
				pn = fmt.Sprint(p)
			}
		}()
		err = v.UnmarshalBinary(append([]byte(nil), b2...))
	}()
	e := E{"e": "df", "k": kind, "b": B(b2), "spare": 0, "panic": pn != "", "pmsg": pn, "ok": err == nil && pn == "", "alloc": 0, "again": true,
		"v": V{}, "ok2": false, "ok3": false, "v3": V{}}
	if err == nil && pn == "" {
		e["v"] = toJ(kind, v)
	}
	rec.Emit(e)
}

// mutate: truncations, single-field corruptions, oversized length fields, junk
func (g *cgen) mutate(b []byte) []byte {
	rng := g.rng
	out := append([]byte(nil), b...)
	switch rng.Intn(6) {
	case 0:
		if len(out) > 0 {
			out = out[:rng.Intn(len(out))]
		}
	case 1:
		if len(out) > 0 {
			out[rng.Intn(len(out))] = byte(rng.Intn(256))
		}
	case 2:
		if len(out) > 0 {
			i := rng.Intn(min(len(out), 12))
			out[i] = byte(200 + rng.Intn(56))
		}
	case 3:
		for i := 0; i < 1+rng.Intn(8); i++ {
			out = append(out, byte(rng.Intn(256)))
		}
	case 4:
		n := rng.Intn(24)
		out = make([]byte, n)
		for i := range out {
			out[i] = byte(rng.Intn(256))
		}
	case 5:
		if len(out) > 1 {
			i := rng.Intn(len(out) - 1)
			out[i], out[i+1] = out[i+1], out[i]
		}
	}
	return out
}

func min(a, b int) int {
	if a < b {
		return a
	}
	return b
}

// cmdCodec <out> <seed> <n> <mode>     mode: c01 | c02 | c04
func cmdCodec(args []string) {
	out := args[0]
	var seed int64 = 1
	n := 1000
	fmt.Sscan(args[1], &seed)
	fmt.Sscan(args[2], &n)
	mode := args[3]
	rec := NewRec(out)
	defer rec.Close()
	debug.SetGCPercent(400)
	g := &cgen{rng: rand.New(rand.NewSource(seed)), huge: 4 + n/2000}
	switch mode {
	case "c01", "c02":
		fitOnly := mode == "c01"
		anyP := 0
		if mode == "c02" {
			anyP = 12
		}
		for _, kv := range g.enumSweep() {
			roundTrip(rec, kv.k, kv.v)
			decodeFirst(rec, kv.k, rfcEnc(kv.v), 0, true)
		}
		for _, kv := range g.boundarySweep() {
			roundTrip(rec, kv.k, kv.v)
		}
		for _, kv := range g.minimalSweep() {
			roundTrip(rec, kv.k, kv.v)
			decodeFirst(rec, kv.k, rfcEnc(kv.v), 0, true)
		}
		for i := 0; i < n; i++ {
			k := allKinds[i%len(allKinds)]
			v := g.value(k, fitOnly, anyP)
			roundTrip(rec, k, v)
			// decode direction: spec-laid-out bytes built without the library's encoder
			w := g.value(k, true, anyP/2)
			b := rfcEnc(w)
			if mode == "c02" && g.rng.Intn(3) == 0 {
				b = g.mutate(b)
			}
			decodeFirst(rec, k, b, 0, true)
			if i%4 == 0 {
				// the same decode target used twice (a reply variable outside a loop): the second decode yields the second byte string
				w1 := g.value(k, true, 0)
				decodeAgain(rec, k, rfcEnc(w1), b)
			}
		}
	case "c04":
		kinds := append(append([]string{}, allKinds...), "Packet")
		for i := 0; i < n; i++ {
			k := kinds[i%len(kinds)]
			var b []byte
			if k == "Packet" {
				h := g.value("Header", true, 3).(*tq.Header)
				body := rfcEnc(g.value(bodyKinds[g.rng.Intn(len(bodyKinds))], true, 5))
				switch g.rng.Intn(4) {
				case 0:
					h.Length = uint32(len(body))
				case 1:
					h.Length = uint32(len(body) + 1 + g.rng.Intn(100))
				case 2:
					h.Length = uint32(g.rng.Intn(len(body) + 1))
				}
				b = append(rfcEnc(h), body...)
				if g.rng.Intn(3) == 0 {
					b = g.mutate(b)
				}
			} else {
				b = rfcEnc(g.value(k, true, 5))
				if g.rng.Intn(4) != 0 {
					b = g.mutate(b)
				}
			}
			spare := 0
			if g.rng.Intn(2) == 0 {
				spare = 1 + g.rng.Intn(300)
			}
			decodeFirst(rec, k, b, spare, false)
		}
		// length-field arithmetic: every window of four octets of the fixed part set to pairs of length fields whose sum wraps
		// at 8 or 16 bits (0003+ffff, 8000+8001, ff+01, ...), followed by a few octets, with and without spare capacity
		pats := [][]byte{{0x00, 0x03, 0xff, 0xff}, {0xff, 0xff, 0x00, 0x03}, {0x80, 0x00, 0x80, 0x01}, {0xff, 0xfe, 0x00, 0x05}, {0x00, 0x01, 0xff, 0xff},
			{0xff, 0x01, 0x00, 0x00}, {0x80, 0x80, 0x00, 0x01}, {0xff, 0xff, 0xff, 0x03}, {0x01, 0xff, 0x00, 0x00}, {0xff, 0xff, 0xff, 0xff}}
		for _, k := range bodyKinds {
			for _, fill := range []byte{0, 1} {
				base := make([]byte, 12)
				for i := range base {
					base[i] = fill
				}
				for s0 := 0; s0+4 <= 12; s0++ {
					for _, pat := range pats {
						for _, tail := range []string{"abc", "abcdefgh"} {
							b := append([]byte(nil), base[:12]...)
							copy(b[s0:], pat)
							b = append(b, tail...)
							for _, cut := range []int{len(b), s0 + 4 + len(tail)} {
								if cut > len(b) {
									cut = len(b)
								}
								decodeFirst(rec, k, b[:cut], 64, false)
								decodeFirst(rec, k, b[:cut], 0, false)
							}
						}
					}
				}
			}
		}
		// large inputs: 65548+ octets
		for i := 0; i < 2+n/5000; i++ {
			big := make([]byte, 65548+g.rng.Intn(64))
			for j := range big {
				big[j] = byte(g.rng.Intn(256))
			}
			if i%2 == 0 {
				copy(big, rfcEnc(&tq.Header{Version: tq.Version{MajorVersion: 12}, Type: 1, SeqNo: 1, Length: 65536}))
			}
			decodeFirst(rec, kinds[g.rng.Intn(len(kinds))], big, g.rng.Intn(64), false)
		}
	}
	fmt.Printf("{\"events\":%d}\n", rec.N)
}
