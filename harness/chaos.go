package main

import (
	"bufio"
	"context"
	"encoding/json"
	"fmt"
	"io"
	"math/rand"
	"net"
	"os"
	"runtime"

	tq "github.com/facebookincubator/tacquito"
)

// ---- scenario format (produced by TLC emission or by the random generator) -----------

type Pkt struct {
	Sid      int      `json:"sid"` // index into the sid pool
	Seq      int      `json:"seq"`
	Ty       int      `json:"ty"`
	Min      int      `json:"min"`
	Fl       int      `json:"fl"`
	Rd       string   `json:"rd"`                 // ok | short | badhdr | oversize | mismatch | eof
	Ops      []string `json:"ops"`                // what the handler does if this packet is dispatched
	Body     []int    `json:"body,omitempty"`     // clear body override
	CKey     []int    `json:"ckey,omitempty"`     // client key override (key mismatch experiments)
	Rsz      int      `json:"rsz,omitempty"`      // reply body size target
	Rst      int      `json:"rst,omitempty"`      // reply status override
	Bv       int      `json:"bv,omitempty"`       // bad header variant
	Chunk    int      `json:"chunk,omitempty"`    // feed in chunks of this many bytes (0 = one chunk)
	Pre      []int    `json:"pre,omitempty"`      // octets written before the header (proxy-mode streams: the PROXY line)
	ViaWrite bool     `json:"viawrite,omitempty"` // the handler answers through Response.Write with a packet built on a copy of the request's header
}

type Scen struct {
	ID   string `json:"id"`
	Key  []int  `json:"key,omitempty"`
	Pkts []Pkt  `json:"pkts"`
	// stream mode (C05): all packets are written as one byte stream cut into chunks
	Stream bool    `json:"stream,omitempty"`
	Cuts   []int   `json:"cuts,omitempty"`  // chunk sizes; the rest goes into a final chunk
	End    string  `json:"end,omitempty"`   // idle | eof | fire
	Trunc  int     `json:"trunc,omitempty"` // cut this many octets off the end of the stream
	Proxy  bool    `json:"proxy,omitempty"` // the connection goes to a server started with SetUseProxy(true)
	Sids   []int64 `json:"sids,omitempty"`  // session ids of this scenario (default: the run's pool of four random ids)
}

// ---- the runner ----------------------------------------------------------------------

type chaosRun struct {
	rec     *Rec
	log     *CapLog
	lis     *FakeListener
	srv     *tq.Server
	plis    *FakeListener // second server, started with SetUseProxy(true)
	pdone   chan struct{}
	cancel  context.CancelFunc
	done    chan struct{}
	sidPool []uint32
	curSids []uint32 // the running scenario's own session ids, if it names them
	kept    [][]byte // bodies the handler was given during the running stream (the slices themselves)
	defKey  []byte
	rng     *rand.Rand
	// current scenario state (scenarios run one at a time)
	key     []byte
	conn    *FakeConn
	curPkt  *Pkt
	feedIdx int
	base    G4
	nconn   int
	// secrets are handed to the server as sub-slices of one arena (two consecutive scenarios'
	// keys lie next to each other, as sub-slices of a configuration buffer would)
	stream    *Scen
	invCount  int
	logKey    []byte
	arena     []byte
	preplaced []byte // key slice of the next scenario, already placed behind the current one
}

// SecretProvider
func (r *chaosRun) Get(ctx context.Context, remote net.Addr) ([]byte, tq.Handler, error) {
	return r.key, &chaosH{run: r, hid: 0}, nil
}

type chaosH struct {
	run *chaosRun
	hid int
}

func (h *chaosH) Handle(resp tq.Response, req tq.Request) {
	r := h.run
	if r.stream != nil && r.invCount < len(r.stream.Pkts) {
		r.curPkt = &r.stream.Pkts[r.invCount]
		r.invCount++
		r.feedIdx = r.invCount
	}
	p := r.curPkt
	hd := req.Header
	r.rec.Emit(E{"e": "inv", "hid": h.hid, "sid": U32(uint32(hd.SessionID)), "seq": int(hd.SeqNo), "ty": int(hd.Type),
		"maj": int(hd.Version.MajorVersion), "min": int(hd.Version.MinorVersion), "fl": int(hd.Flags), "b": B(req.Body)})
	if r.stream != nil {
		r.kept = append(r.kept, req.Body) // a handler may keep the body it was given: looked at again when the stream is over
	}
	if p != nil {
		for _, op := range p.Ops {
			switch op {
			case "next":
				id := r.feedIdx
				resp.Next(&chaosH{run: r, hid: id})
				r.rec.Emit(E{"e": "reg", "id": id})
			case "reply", "restart", "badreply", "xreply":
				ty := hd.Type
				if op == "xreply" {
					// a catch-all handler answering with a body of another family (e.g. an authentication ERROR for an accounting request)
					ty = tq.HeaderType(1 + int(hd.Type)%3)
				}
				v, kind := makeReply(ty, op, p)
				cb, _ := v.MarshalBinary() // the clear reply body the handler hands to Reply (nil if it does not validate)
				r.rec.Emit(E{"e": "rep", "k": kind, "op": op, "cb": B(cb)})
				if p.ViaWrite && op == "reply" && cb != nil && hd.SeqNo < 255 {
					// a handler that builds the reply packet itself: the request's header copied, the sequence number bumped -
					// the length field still says what the REQUEST's body was
					h2 := req.Header
					h2.SeqNo = hd.SeqNo + 1
					resp.Write(&tq.Packet{Header: &h2, Body: cb})
				} else {
					resp.Reply(v)
				}
			}
		}
	}
	r.rec.Emit(E{"e": "ret"})
}

func pad(n int, c byte) string {
	if n < 0 {
		n = 0
	}
	b := make([]byte, n)
	for i := range b {
		b[i] = c
	}
	return string(b)
}

func makeReply(ty tq.HeaderType, op string, p *Pkt) (tq.EncoderDecoder, string) {
	if op == "xreply" {
		q := *p
		q.Rst = 0 // the status chosen for the packet's own family means nothing in another one
		p = &q
	}
	sz := p.Rsz
	switch ty {
	case tq.Authenticate:
		st := tq.AuthenStatus(3) // GETDATA
		if p.Rst != 0 {
			st = tq.AuthenStatus(p.Rst)
		}
		if op == "restart" {
			st = tq.AuthenStatusRestart
		} else if st == tq.AuthenStatusRestart {
			st = tq.AuthenStatusPass
		}
		if op == "badreply" && p.Bv%2 == 1 {
			// a reply whose fields are valid one by one but whose body is larger than a packet may carry (65 536 octets): the
			// marshalling succeeds, the write is refused
			return tq.NewAuthenReply(tq.SetAuthenReplyStatus(st), tq.SetAuthenReplyServerMsg(pad(65535, 'm')), tq.SetAuthenReplyData(tq.AuthenData(pad(100, 'd')))), "AuthenReply"
		}
		if op == "badreply" {
			st = 0
		}
		msg := "m"
		data := ""
		if sz > 6 {
			if sz-6 > 65535 {
				msg = pad(65535, 'm')
				data = pad(sz-6-65535, 'd')
			} else {
				msg = pad(sz-6, 'm')
			}
		}
		return tq.NewAuthenReply(tq.SetAuthenReplyStatus(st), tq.SetAuthenReplyServerMsg(msg), tq.SetAuthenReplyData(tq.AuthenData(data))), "AuthenReply"
	case tq.Authorize:
		st := tq.AuthorStatusPassAdd
		if p.Rst != 0 {
			st = tq.AuthorStatus(p.Rst)
		}
		if op == "badreply" {
			st = 0
		}
		msg := "m"
		if sz > 6 {
			msg = pad(sz-6, 'm')
			if len(msg) > 65535 {
				msg = msg[:65535]
			}
		}
		return tq.NewAuthorReply(tq.SetAuthorReplyStatus(st), tq.SetAuthorReplyServerMsg(msg)), "AuthorReply"
	default:
		st := tq.AcctReplyStatusSuccess
		if p.Rst != 0 {
			st = tq.AcctReplyStatus(p.Rst)
		}
		if op == "badreply" {
			st = 0
		}
		msg := "m"
		if sz > 5 {
			msg = pad(sz-5, 'm')
			if len(msg) > 65535 {
				msg = msg[:65535]
			}
		}
		return tq.NewAcctReply(tq.SetAcctReplyStatus(st), tq.SetAcctReplyServerMsg(msg)), "AcctReply"
	}
}

// default well-formed request bodies (manual RFC layout; input construction only)
func defaultBody(ty int) []byte {
	switch ty {
	case 1: // START: login, priv 1, ascii, service login, user "u", port "p", rem "r", no data
		return []byte{1, 1, 1, 1, 1, 1, 1, 0, 'u', 'p', 'r'}
	case 2: // author REQUEST: method tacacs+, priv 1, ascii, login, user "u", port "p", rem "r", 1 arg "service=shell"
		a := "service=shell"
		b := []byte{6, 1, 1, 1, 1, 1, 1, 1, byte(len(a)), 'u', 'p', 'r'}
		return append(b, a...)
	default: // acct REQUEST: start flag, method, priv, type, service, user "u", port "p", rem "r", 1 arg
		a := "task_id=1"
		b := []byte{2, 6, 1, 1, 1, 1, 1, 1, 1, byte(len(a)), 'u', 'p', 'r'}
		return append(b, a...)
	}
}

// bodies that overrun under every layout of their packet type (class M of C19 once seen in clear)
func mismatchBody(ty int) []byte {
	switch ty {
	case 1:
		return []byte{255, 255, 255, 255, 255, 255, 255, 255, 1, 2, 3, 4}
	case 2:
		return []byte{6, 1, 255, 255, 255, 255, 255, 1, 255, 1, 2, 3}
	default:
		return []byte{255, 255, 255, 255, 1, 255, 255, 255, 1, 255, 1, 2}
	}
}

func (r *chaosRun) start() {
	ctx, cancel := context.WithCancel(context.Background())
	r.cancel = cancel
	r.lis = NewFakeListener(nil)
	r.srv = tq.NewServer(r.log, r)
	r.done = make(chan struct{})
	go func() {
		r.srv.Serve(ctx, r.lis)
		close(r.done)
	}()
	r.plis = NewFakeListener(nil)
	psrv := tq.NewServer(r.log, r, tq.SetUseProxy(true))
	r.pdone = make(chan struct{})
	go func() {
		psrv.Serve(ctx, r.plis)
		close(r.pdone)
	}()
}

func (r *chaosRun) stop() {
	r.cancel()
	r.lis.Kick()
	r.plis.Kick()
	<-r.done
	<-r.pdone
}

func (r *chaosRun) gauges(tag string) {
	g := ReadG4().Sub(r.base)
	r.rec.Emit(E{"e": "g", "at": tag, "gs": g.Sess, "gh": g.Hand})
}

func (r *chaosRun) hook(ev string, args ...interface{}) {
	switch ev {
	case "s.get":
		r.rec.Emit(E{"e": "get", "out": args[3].(string), "st": args[4].(int), "kl": args[5].(int)})
	case "s.set":
		r.rec.Emit(E{"e": "set", "kl": args[3].(int)})
	case "s.upd":
		r.rec.Emit(E{"e": "upd", "seq": args[2].(int), "kl": args[3].(int)})
	case "s.del":
		r.rec.Emit(E{"e": "del", "kl": args[2].(int)})
	case "s.close":
		r.rec.Emit(E{"e": "sclose", "kl": args[1].(int)})
	case "h.read":
		cls := "ok"
		if args[1] != nil {
			if args[1].(error) == io.EOF {
				cls = "eof"
			} else {
				cls = "err"
			}
		}
		r.rec.Emit(E{"e": "read", "cls": cls})
	case "h.post":
		r.rec.Emit(E{"e": "post", "next": args[1].(bool), "rs": args[2].(int)})
	case "r.reply":
		r.rec.Emit(E{"e": "rseq", "seq": args[1].(int), "merr": args[2] != nil})
	}
}

func (r *chaosRun) packetBytes(p *Pkt) (hdr []byte, wire []byte, clear []byte) {
	sid := r.sidPool[p.Sid%len(r.sidPool)]
	if r.curSids != nil {
		sid = r.curSids[p.Sid%len(r.curSids)]
	}
	maj := 12
	min := p.Min
	ty := p.Ty
	seq := p.Seq
	clear = defaultBody(p.Ty)
	if p.Body != nil {
		clear = fromInts(p.Body)
	}
	if p.Rd == "mismatch" && p.Body == nil {
		clear = mismatchBody(p.Ty)
	}
	n := len(clear)
	switch p.Rd {
	case "badhdr":
		switch p.Bv % 5 {
		case 0:
			maj = 11
		case 1:
			min = 2
		case 2:
			ty = 0
		case 3:
			ty = 4
		case 4:
			seq = 0
		}
	case "oversize":
		n = 65537 + p.Bv
	}
	ver := byte(maj<<4 | min&0xf)
	hdr = []byte{ver, byte(ty), byte(seq), byte(p.Fl), byte(sid >> 24), byte(sid >> 16), byte(sid >> 8), byte(sid),
		byte(n >> 24), byte(n >> 16), byte(n >> 8), byte(n)}
	key := r.logKey
	if p.CKey != nil {
		key = fromInts(p.CKey)
	}
	if p.Fl&1 == 1 {
		wire = clear
	} else {
		wire = obfuscate(key, sid, ver, byte(seq), clear)
	}
	switch p.Rd {
	case "oversize":
		wire = nil
	case "short":
		if len(wire) > 0 {
			wire = wire[:len(wire)-1-(p.Bv%len(wire))]
		} else {
			hdr = hdr[:11]
		}
	}
	return
}

func (r *chaosRun) placeKeys(sc, next *Scen) []byte {
	want := r.defKey
	if sc.Key != nil {
		want = fromInts(sc.Key)
	}
	if r.preplaced != nil {
		k := r.preplaced
		r.preplaced = nil
		return k
	}
	if r.arena == nil {
		r.arena = make([]byte, 8192)
	}
	n := copy(r.arena, want)
	k := r.arena[0:n]
	if next != nil {
		nk := r.defKey
		if next.Key != nil {
			nk = fromInts(next.Key)
		}
		m := copy(r.arena[n:], nk)
		r.preplaced = r.arena[n : n+m]
	}
	return k
}

func (r *chaosRun) runScenario(sc, next *Scen) {
	r.nconn++
	r.key = r.placeKeys(sc, next)
	logKey := r.defKey // what the key is meant to be (never read back from the arena)
	if sc.Key != nil {
		logKey = fromInts(sc.Key)
	}
	r.curPkt = nil
	r.feedIdx = 0
	r.curSids = nil
	for _, x := range sc.Sids {
		r.curSids = append(r.curSids, uint32(x))
	}
	r.base = ReadG4()
	r.rec.Emit(E{"e": "reset", "sc": sc.ID, "key": B(logKey)})
	conn := NewFakeConn(r.nconn, &net.TCPAddr{IP: net.ParseIP("10.1.2.3"), Port: 1000 + r.nconn%60000}, r.rec)
	conn.quiet = true
	conn.Extra = E{"sk": B(logKey)}
	r.logKey = logKey
	r.conn = conn
	if sc.Proxy {
		r.plis.Offer(conn)
	} else {
		r.lis.Offer(conn)
	}
	closed := conn.WaitQuiesce()
	r.stream = nil
	if sc.Stream {
		r.runStream(sc, conn)
		return
	}
	for i := range sc.Pkts {
		if closed {
			break
		}
		p := &sc.Pkts[i]
		if p.Rd == "eof" {
			r.rec.Emit(E{"e": "eof"})
			conn.EOF()
			closed = conn.WaitQuiesce()
			break
		}
		r.feedIdx = i + 1
		r.curPkt = p
		hdr, wire, _ := r.packetBytes(p)
		ops := p.Ops
		if ops == nil {
			ops = []string{}
		}
		r.rec.Emit(E{"e": "feed", "i": i + 1, "h": B(hdr), "b": B(wire), "ops": ops, "rd": p.Rd, "sk": B(r.logKey)})
		all := append(append([]byte{}, hdr...), wire...)
		if p.Chunk > 0 {
			var chunks [][]byte
			for len(all) > 0 {
				k := p.Chunk
				if k > len(all) {
					k = len(all)
				}
				chunks = append(chunks, all[:k])
				all = all[k:]
			}
			conn.Feed(chunks...)
		} else {
			conn.Feed(all)
		}
		if p.Rd == "short" || p.Rd == "oversize" {
			// nothing more will come: the stream ends inside / right after the header
			if p.Rd == "short" {
				conn.EOF()
			}
		}
		closed = conn.WaitQuiesce()
		r.gauges("q")
	}
	if !closed {
		r.rec.Emit(E{"e": "eof"})
		conn.EOF()
		conn.WaitQuiesce()
		r.gauges("q")
	}
}

// runStream: the packets of the scenario as one byte stream, cut into the given chunks.
func (r *chaosRun) runStream(sc *Scen, conn *FakeConn) {
	r.stream = sc
	r.invCount = 0
	r.kept = nil
	var all []byte
	pk := []E{}
	for i := range sc.Pkts {
		r.curPkt = &sc.Pkts[i]
		hdr, wire, _ := r.packetBytes(&sc.Pkts[i])
		pk = append(pk, E{"h": B(hdr), "b": B(wire), "pre": B(fromInts(sc.Pkts[i].Pre))})
		all = append(all, fromInts(sc.Pkts[i].Pre)...)
		all = append(all, hdr...)
		all = append(all, wire...)
	}
	r.curPkt = nil
	if sc.Trunc > 0 && sc.Trunc < len(all) {
		all = all[:len(all)-sc.Trunc]
	}
	cuts := sc.Cuts
	if cuts == nil {
		cuts = []int{}
	}
	r.rec.Emit(E{"e": "stream", "pk": pk, "n": len(all), "cuts": cuts, "end": sc.End, "trunc": sc.Trunc, "proxy": sc.Proxy, "sk": B(r.logKey)})
	var chunks [][]byte
	rest := all
	for _, k := range cuts {
		if k <= 0 || len(rest) == 0 {
			continue
		}
		if k > len(rest) {
			k = len(rest)
		}
		chunks = append(chunks, rest[:k])
		rest = rest[k:]
	}
	if len(rest) > 0 {
		chunks = append(chunks, rest)
	}
	var m0, m1 runtime.MemStats
	runtime.ReadMemStats(&m0)
	conn.Feed(chunks...)
	switch sc.End {
	case "eof":
		conn.EOF()
	}
	closed := conn.WaitQuiesce()
	blockedBeforeEnd := !closed
	if !closed && sc.End == "fire" {
		r.rec.Emit(E{"e": "fire"})
		conn.Fire()
		closed = conn.WaitQuiesce()
	}
	runtime.ReadMemStats(&m1)
	for i, b := range r.kept {
		r.rec.Emit(E{"e": "late", "i": i + 1, "b": B(b)})
	}
	r.rec.Emit(E{"e": "send", "closed": closed, "blocked": blockedBeforeEnd, "alloc": int(m1.TotalAlloc - m0.TotalAlloc), "reads": conn.Reads})
	r.gauges("q")
	if !closed {
		r.rec.Emit(E{"e": "eof"})
		conn.EOF()
		conn.WaitQuiesce()
		r.gauges("q")
	}
	r.stream = nil
}

func cmdChaos(args []string) {
	in, out := args[0], args[1]
	seed := int64(1)
	if len(args) > 2 {
		fmt.Sscan(args[2], &seed)
	}
	rec := NewRec(out)
	defer rec.Close()
	r := &chaosRun{rec: rec, log: NewCapLog(rec, false), rng: rand.New(rand.NewSource(seed))}
	for i := 0; i < 4; i++ {
		r.sidPool = append(r.sidPool, r.rng.Uint32())
	}
	r.defKey = []byte(fmt.Sprintf("k%d", seed%1000))
	tq.VerifHook = r.hook
	r.start()
	f, err := os.Open(in)
	if err != nil {
		panic(err)
	}
	defer f.Close()
	rd := bufio.NewReaderSize(f, 1<<20)
	var all []*Scen
	for {
		line, err := rd.ReadBytes('\n')
		if len(line) > 1 {
			sc := &Scen{}
			if e := json.Unmarshal(line, sc); e != nil {
				panic(fmt.Errorf("bad scenario line: %v: %s", e, line))
			}
			all = append(all, sc)
		}
		if err != nil {
			break
		}
	}
	n := 0
	for i, sc := range all {
		var next *Scen
		if i+1 < len(all) {
			next = all[i+1]
		}
		r.runScenario(sc, next)
		n++
	}
	r.stop()
	tq.VerifHook = nil
	fmt.Printf("{\"scenarios\":%d,\"events\":%d}\n", n, rec.N)
}
