package main

import (
	"bufio"
	"bytes"
	"context"
	"encoding/json"
	"fmt"
	"net"
	"os"
	"regexp"
	"runtime"
	"sort"
	"strings"
	"sync"
	"sync/atomic"
	"syscall"
	"time"

	tq "github.com/facebookincubator/tacquito"
	"github.com/facebookincubator/tacquito/cmds/server/config"
	"github.com/facebookincubator/tacquito/cmds/server/config/authenticators/bcrypt"
	"github.com/facebookincubator/tacquito/cmds/server/config/authorizers/stringy"
	"github.com/facebookincubator/tacquito/cmds/server/config/secret"
	"github.com/facebookincubator/tacquito/cmds/server/config/secret/prefix"
	"github.com/facebookincubator/tacquito/cmds/server/handlers"
	"github.com/facebookincubator/tacquito/cmds/server/loader"
)

// C17 / C20 / C14 (accept loop): schedules of environment actions replayed on the real Serve with a fake
// listener, scripted connections, gates and a logical clock. Every event is stamped by the recorder's order.

type LScen struct {
	ID     string          `json:"id"`
	Steps  [][]interface{} `json:"steps"`
	Refuse []int           `json:"refuse,omitempty"` // connections the secret provider refuses
	Loader bool            `json:"loader,omitempty"` // admission goes through a real loader.Loader that shares Serve's context (as cmds/server/main.go wires it)
	Proxy  bool            `json:"proxy,omitempty"`  // the server runs with SetUseProxy(true): a PROXY line precedes every packet (as the code expects it)
}

type lifeRun struct {
	proxy     bool
	rec       *Rec
	mu        sync.Mutex
	lis       *FakeListener
	clk       *Clock
	conns     map[int]*FakeConn
	hgate     map[int]chan struct{}
	hwait     map[int]bool
	done      map[int]bool
	refuse    map[int]bool
	pend      map[int][]byte    // bytes of a packet being dribbled
	wantNext  map[int]bool      // the next handler invocation on this connection registers a continuation
	sess      map[int][2]uint32 // open exchange of a connection: session id, next client sequence number
	nsid      uint32
	served    chan struct{}
	burst     int32   // bursts: completion events are noted without locks and written out once everything is parked
	doneA     []int32 // per connection: goroutine finished (noted by the hook during a burst)
	nextID    int
	base      G4
	nblocked  int
	unsettled bool
	ld        *loader.Loader // real loader consulted by Get (scenarios with "loader")
	ret       bool
	cancel    context.CancelFunc
}

func (r *lifeRun) Get(ctx context.Context, remote net.Addr) ([]byte, tq.Handler, error) {
	c := remote.(*net.TCPAddr).Port - 20000
	if r.ld != nil {
		// the real admission path: what it answers only decides served / refused here (key and handler stay the harness's)
		if _, _, err := r.ld.Get(ctx, remote); err != nil {
			r.rec.Emit(E{"e": "lookup", "c": c, "ok": false})
			return nil, nil, err
		}
	}
	if atomic.LoadInt32(&r.burst) == 1 {
		// a burst: every connection is refused at once, nothing is recorded on the way
		return nil, nil, fmt.Errorf("refused by the harness")
	}
	r.mu.Lock()
	ref := r.refuse[c]
	r.mu.Unlock()
	r.rec.Emit(E{"e": "lookup", "c": c, "ok": !ref})
	if ref {
		return nil, nil, fmt.Errorf("refused by the harness")
	}
	return []byte("lifekey"), tq.HandlerFunc(func(resp tq.Response, req tq.Request) { r.handle(c, resp, req) }), nil
}

func (r *lifeRun) handle(c int, resp tq.Response, req tq.Request) {
	r.mu.Lock()
	g := make(chan struct{})
	r.hgate[c] = g
	r.hwait[c] = true
	r.mu.Unlock()
	r.rec.Emit(E{"e": "hstart", "c": c})
	<-g
	r.mu.Lock()
	r.hwait[c] = false
	next := r.wantNext[c]
	r.wantNext[c] = false
	r.mu.Unlock()
	if next {
		// the exchange goes on: the session waits for another packet
		resp.Next(tq.HandlerFunc(func(resp2 tq.Response, req2 tq.Request) { r.handle(c, resp2, req2) }))
		resp.Reply(tq.NewAuthenReply(tq.SetAuthenReplyStatus(tq.AuthenStatusGetUser), tq.SetAuthenReplyServerMsg("more")))
		r.rec.Emit(E{"e": "hend", "c": c})
		return
	}
	resp.Reply(tq.NewAuthenReply(tq.SetAuthenReplyStatus(tq.AuthenStatusFail), tq.SetAuthenReplyServerMsg("no")))
	r.rec.Emit(E{"e": "hend", "c": c})
}

func (r *lifeRun) hook(ev string, args ...interface{}) {
	id := func(x interface{}) int {
		if fc, ok := x.(*FakeConn); ok {
			return fc.ID
		}
		return 0
	}
	switch ev {
	case "serve.add":
		if fc, ok := args[1].(*FakeConn); ok {
			accMu.Lock()
			accSet[fc] = true
			accMu.Unlock()
		}
		r.rec.Emit(E{"e": "add", "c": id(args[1])})
	case "conn.done":
		c := id(args[1])
		if atomic.LoadInt32(&r.burst) == 1 && c < len(r.doneA) {
			atomic.StoreInt32(&r.doneA[c], 1)
			return
		}
		r.mu.Lock()
		r.done[c] = true
		r.mu.Unlock()
		r.rec.Emit(E{"e": "done", "c": c})
	case "serve.ret":
		r.rec.Emit(E{"e": "ret"})
	}
}

// parked: every goroutine of the server waits for the environment
func (r *lifeRun) parked() (bool, string) {
	select {
	case <-r.served:
	default:
		if !r.lis.IsParked() && !r.lis.IsClosed() { // parked in Accept, or past the loop (listener closed: in Wait or returning)
			return false, "acceptor"
		}
	}
	r.mu.Lock()
	defer r.mu.Unlock()
	for c, fc := range r.conns {
		if r.done[c] || c < len(r.doneA) && atomic.LoadInt32(&r.doneA[c]) == 1 {
			continue
		}
		if !fc.accepted() {
			continue
		}
		if fc.IsAtGate() || fc.IsBlocked() || r.hwait[c] {
			continue
		}
		return false, fmt.Sprintf("conn %d", c)
	}
	return true, ""
}

func (r *lifeRun) settle() {
	stable := 0
	lastN := -1
	budget := 6000
	if r.unsettled {
		budget = 300 // this scenario already has a goroutine that does not park: do not wait seconds again at every step
	}
	for i := 0; i < budget; i++ {
		ok, _ := r.parked()
		r.rec.mu.Lock()
		n := r.rec.N
		r.rec.mu.Unlock()
		if ok && n == lastN {
			stable++
			if stable >= 6 {
				return
			}
		} else {
			stable = 0
		}
		lastN = n
		if i < 2000 {
			runtime.Gosched() // yield first: every server goroutine usually parks within microseconds
		} else {
			time.Sleep(100 * time.Microsecond)
		}
	}
	_, who := r.parked()
	r.unsettled = true
	r.rec.Emit(E{"e": "unsettled", "who": who})
}

// serveGoroutines counts the goroutines that still have (*Server).serve on their stack: a connection goroutine is
// only gone - its deferred wait-group Done included - when it no longer shows up here.
func serveGoroutines() int {
	buf := make([]byte, 1<<16)
	for {
		n := runtime.Stack(buf, true)
		if n < len(buf) {
			return bytes.Count(buf[:n], []byte("tacquito.(*Server).serve("))
		}
		buf = make([]byte, 2*len(buf))
	}
}

// newLifeLoader: a real loader.Loader with one secret configuration that covers the scripted connections' addresses, built
// on the context Serve runs under
func newLifeLoader(ctx context.Context) *loader.Loader {
	lg := NewCapLog(nil, false)
	ch := chanCfg{ch: make(chan config.ServerConfig, 1)}
	ld, err := loader.NewLoader(ctx, ch,
		loader.SetLoggerProvider(lg), loader.SetKeychainProvider(secret.New()), loader.SetConfigProvider(config.New()),
		loader.SetAuthorizerProvider(stringy.New(lg)), loader.RegisterSecretProviderType(config.PREFIX, prefix.New(lg)),
		loader.RegisterHandlerType(config.START, handlers.NewStart(lg)), loader.RegisterAuthenticator(config.BCRYPT, bcrypt.New(lg, okSecret{})))
	if err != nil {
		panic(err)
	}
	ch.ch <- renderCfg(&RCfg{Secrets: []RSecret{{Name: "life", NameB: BS("life"), Key: BS("lifekey"), Prefixes: []RPrefix{{S: "10.9.0.0/16"}}}},
		Users: []RUser{{Name: BS("u"), Scopes: []string{"life"}}}})
	ld.BlockUntilLoaded()
	return ld
}

var goroutineHead = regexp.MustCompile(`(?m)^goroutine (\d+) \[([^\],]+)`)

// blockedForGood: three goroutine dumps one second apart. True when, in all three, the same connection goroutines (those with
// (*Server).serve on their stack) exist, every one of them is blocked (not running / runnable) at the same function, and that
// function is not one of the harness's own waiting points. Returns the blocking functions.
func blockedForGood() (string, bool) {
	snap := func() (map[string]string, bool) {
		buf := make([]byte, 1<<20)
		buf = buf[:runtime.Stack(buf, true)]
		out := map[string]string{}
		for _, blk := range strings.Split(string(buf), "\n\n") {
			if !strings.Contains(blk, "tacquito.(*Server).serve(") {
				continue
			}
			m := goroutineHead.FindStringSubmatch(blk)
			if m == nil {
				continue
			}
			if m[2] == "running" || m[2] == "runnable" {
				return nil, false
			}
			lines := strings.Split(blk, "\n")
			top := ""
			for _, ln := range lines[1:] {
				if strings.HasPrefix(ln, "\t") || strings.HasPrefix(ln, "runtime.") || strings.HasPrefix(ln, "sync.") || strings.HasPrefix(ln, "internal/") {
					continue
				}
				top = ln
				break
			}
			if strings.HasPrefix(top, "main.") {
				return nil, false // waiting inside the harness (a gate, a scripted read): not the server's doing
			}
			if i := strings.LastIndex(top, "("); i > 0 {
				top = top[:i]
			}
			out[m[1]] = m[2] + " in " + top
		}
		return out, len(out) > 0
	}
	first, ok := snap()
	if !ok {
		return "", false
	}
	for k := 0; k < 2; k++ {
		time.Sleep(time.Second)
		next, ok := snap()
		if !ok || len(next) != len(first) {
			return "", false
		}
		for id, w := range first {
			if next[id] != w {
				return "", false
			}
		}
	}
	ws := []string{}
	for _, w := range first {
		ws = append(ws, w)
	}
	sort.Strings(ws)
	return strings.Join(ws, "; "), true
}

var accMu sync.Mutex
var accSet = map[*FakeConn]bool{}

func (c *FakeConn) accepted() bool {
	accMu.Lock()
	defer accMu.Unlock()
	return accSet[c]
}

func (r *lifeRun) packet(c int) []byte {
	body := defaultBody(1)
	n := len(body)
	r.mu.Lock()
	se, open := r.sess[c]
	if !open {
		r.nsid++
		se = [2]uint32{0x51000000 + r.nsid, 1}
	}
	sid, seq := se[0], se[1]
	if r.wantNext[c] {
		r.sess[c] = [2]uint32{sid, seq + 2} // the handler will register a continuation: the next packet continues the exchange
	} else {
		delete(r.sess, c)
	}
	r.mu.Unlock()
	pk := append([]byte{0xc0, 1, byte(seq), 1, byte(sid >> 24), byte(sid >> 16), byte(sid >> 8), byte(sid), 0, 0, byte(n >> 8), byte(n)}, body...)
	if r.proxy {
		pk = append([]byte("PROXY TCP4 10.9.9.9 10.0.0.2 1000 49\r\n\x00"), pk...)
	}
	return pk
}

func (r *lifeRun) run(sc *LScen) {
	base := ReadG4()
	r.base = base
	r.doneA = make([]int32, 1<<16)
	r.nextID = 1000
	r.clk = &Clock{}
	r.lis = NewFakeListener(r.rec)
	r.lis.clk = r.clk
	r.clk.lis = []*FakeListener{r.lis}
	r.conns, r.hgate, r.hwait, r.done, r.refuse, r.pend = map[int]*FakeConn{}, map[int]chan struct{}{}, map[int]bool{}, map[int]bool{}, map[int]bool{}, map[int][]byte{}
	r.wantNext, r.sess = map[int]bool{}, map[int][2]uint32{}
	for _, c := range sc.Refuse {
		r.refuse[c] = true
	}
	r.ret = false
	r.unsettled = false
	r.rec.Emit(E{"e": "reset", "sc": sc.ID})
	ctx, cancel := context.WithCancel(context.Background())
	r.cancel = cancel
	r.ld = nil
	if sc.Loader {
		r.ld = newLifeLoader(ctx)
	}
	r.proxy = sc.Proxy
	srv := tq.NewServer(NewCapLog(nil, false), r, tq.SetUseProxy(sc.Proxy))
	r.served = make(chan struct{})
	go func() {
		srv.Serve(ctx, r.lis)
		close(r.served)
	}()
	r.settle()
	cancelled := false
	do := func(op string, c int) {
		r.rec.Emit(E{"e": "env", "op": op, "c": c, "now": r.clk.Now()})
		fc := r.conns[c]
		switch op {
		case "offer":
			fc = NewFakeConn(c, &net.TCPAddr{IP: net.ParseIP("10.9.9.9"), Port: 20000 + c}, r.rec)
			fc.clk = r.clk
			fc.RaddrGate = make(chan struct{})
			r.mu.Lock()
			r.conns[c] = fc
			r.mu.Unlock()
			r.clk.mu.Lock()
			r.clk.conns = append(r.clk.conns, fc)
			r.clk.mu.Unlock()
			r.lis.Offer(fc)
		case "release":
			if fc != nil && fc.RaddrGate != nil {
				select {
				case <-fc.RaddrGate:
				default:
					close(fc.RaddrGate)
				}
			}
		case "lclose":
			r.lis.Close()
		case "packet", "packetc":
			if fc != nil {
				if op == "packetc" {
					r.mu.Lock()
					r.wantNext[c] = true
					r.mu.Unlock()
				}
				b := append(r.pend[c], r.packet(c)...)
				if len(r.pend[c]) > 0 {
					// finish the packet that was being dribbled
					full := r.packet(c)
					b = full[len(r.pend[c]):]
				}
				r.pend[c] = nil
				fc.Feed(b)
			}
		case "partial":
			if fc != nil {
				if len(r.pend[c]) == 0 {
					r.pend[c] = []byte{}
				}
				full := r.packet(c)
				k := len(r.pend[c])
				if k+1 < len(full) {
					fc.Feed(full[k : k+1])
					r.pend[c] = append(r.pend[c], full[k])
				}
			}
		case "eof":
			if fc != nil {
				fc.EOF()
			}
		case "fire":
			if fc != nil {
				fc.Fire()
			}
		case "hrel":
			r.mu.Lock()
			g := r.hgate[c]
			r.mu.Unlock()
			if g != nil {
				select {
				case <-g:
				default:
					close(g)
				}
			}
		case "offern":
			// c new connections offered back to back
			for k := 0; k < c; k++ {
				id := r.nextID
				r.nextID++
				nc := NewFakeConn(id, &net.TCPAddr{IP: net.ParseIP("10.9.9.9"), Port: 20000 + id}, r.rec)
				nc.clk = r.clk
				nc.quiet = true
				nc.DeferCl = &r.burst
				nc.RaddrGate = make(chan struct{})
				r.mu.Lock()
				r.conns[id] = nc
				r.mu.Unlock()
				r.clk.mu.Lock()
				r.clk.conns = append(r.clk.conns, nc)
				r.clk.mu.Unlock()
				r.lis.Offer(nc)
			}
		case "admitall":
			r.mu.Lock()
			gates := []chan struct{}{}
			for id, x := range r.conns {
				if !r.done[id] && x.RaddrGate != nil {
					gates = append(gates, x.RaddrGate)
				}
			}
			r.mu.Unlock()
			for _, gt := range gates {
				select {
				case <-gt:
				default:
					close(gt)
				}
			}
		case "releaseall", "eofall":
			// every parked connection goroutine is let go at the same moment: they finish concurrently
			r.settle()
			atomic.StoreInt32(&r.burst, 1)
			r.mu.Lock()
			live := []*FakeConn{}
			for id, x := range r.conns {
				if !r.done[id] && x.accepted() {
					live = append(live, x)
				}
			}
			r.mu.Unlock()
			for _, x := range live {
				if op == "eofall" {
					x.EOF()
				} else if x.RaddrGate != nil {
					select {
					case <-x.RaddrGate:
					default:
						close(x.RaddrGate)
					}
				}
			}
			r.settle()
			// all connection goroutines gone (not merely past their last hook)?
			for i := 0; i < 20000 && serveGoroutines() > 0; i++ {
				if i < 2000 {
					runtime.Gosched()
				} else {
					time.Sleep(100 * time.Microsecond)
				}
			}
			atomic.StoreInt32(&r.burst, 0)
			for _, x := range live {
				if x.IsClosed() {
					r.rec.Emit(E{"e": "cl", "c": x.ID})
				}
				if atomic.LoadInt32(&r.doneA[x.ID]) == 1 {
					r.mu.Lock()
					r.done[x.ID] = true
					if x.IsClosed() {
						delete(r.conns, x.ID) // finished and closed: nothing left to drive
					}
					r.mu.Unlock()
					r.rec.Emit(E{"e": "done", "c": x.ID})
				}
			}
		case "rest":
			g := ReadG4().Sub(r.base)
			r.rec.Emit(E{"e": "rest", "quiet": serveGoroutines() == 0, "gs": g.Sess, "gh": g.Hand, "ga": g.Acc, "gr": g.Rout})
		case "cancel":
			cancelled = true
			cancel()
		case "kick":
			r.lis.Kick()
		case "tick":
			r.clk.Tick(int64(c))
		case "acceptfault":
			r.lis.OfferErr(&net.OpError{Op: "accept", Net: "tcp", Err: os.NewSyscallError("accept4", syscall.EMFILE)})
		}
		r.settle()
	}
	for _, st := range sc.Steps {
		op, _ := st[0].(string)
		c := 0
		if len(st) > 1 {
			if f, ok := st[1].(float64); ok {
				c = int(f)
			}
		}
		do(op, c)
	}
	// final phase: cancel, open every gate, let every deadline expire, until Serve returns
	if !cancelled {
		do("cancel", 0)
	}
	returned := false
	for round := 0; round < 8 && !returned; round++ {
		for c := range r.conns {
			do("release", c)
			do("hrel", c)
		}
		do("tick", 20)
		select {
		case <-r.served:
			returned = true
		case <-time.After(3 * time.Millisecond):
		}
	}
	if !returned {
		select {
		case <-r.served:
			returned = true
		case <-time.After(2 * time.Second):
		}
	}
	if !returned {
		// every obligation of the environment is fulfilled (cancelled, gates open, deadlines expired): is the server blocked for good?
		for c := range r.conns {
			r.conns[c].EOF()
		}
		if where, ok := blockedForGood(); ok {
			r.rec.Emit(E{"e": "blocked", "where": where})
			r.nblocked++
		}
	}
	g := ReadG4().Sub(base)
	r.rec.Emit(E{"e": "fin", "returned": returned, "gs": g.Sess, "gh": g.Hand, "ga": g.Acc, "gr": g.Rout})
	if !returned {
		// do not leak a running server into the next scenario
		for c := range r.conns {
			r.conns[c].Close()
		}
		r.lis.Close()
		select {
		case <-r.served:
		case <-time.After(2 * time.Second):
		}
	}
}

// cmdLife <schedules.ndjson> <trace.ndjson>
func cmdLife(args []string) {
	in, out := args[0], args[1]
	rec := NewRec(out)
	defer rec.Close()
	r := &lifeRun{rec: rec}
	tq.VerifHook = r.hook
	f, err := os.Open(in)
	if err != nil {
		panic(err)
	}
	defer f.Close()
	rd := bufio.NewReaderSize(f, 1<<20)
	n := 0
	for {
		line, rerr := rd.ReadBytes('\n')
		if len(line) > 1 {
			var sc LScen
			if e := json.Unmarshal(line, &sc); e != nil {
				panic(fmt.Errorf("bad schedule: %v", e))
			}
			r.run(&sc)
			n++
			if r.nblocked >= 3 {
				// the server hangs for good in scenario after scenario (each costs seconds): the verdict is established
				rec.Emit(E{"e": "reset", "sc": "aborted-after-" + sc.ID})
				break
			}
		}
		if rerr != nil {
			break
		}
	}
	tq.VerifHook = nil
	fmt.Printf("{\"schedules\":%d,\"events\":%d}\n", n, rec.N)
}
