package main

import (
	"io"
	"net"
	"sync"
	"sync/atomic"
	"time"
)

// ---- logical clock ------------------------------------------------------------
// Deadlines are simulated: SetDeadline/SetReadDeadline translate the wall-clock instant they are given into a
// logical instant (logical now + the distance to the wall clock), and Tick advances logical time, expiring
// the deadlines of blocked calls. No check ever waits for real time to pass.
type Clock struct {
	mu    sync.Mutex
	now   int64
	conns []*FakeConn
	lis   []*FakeListener
}

func (k *Clock) Now() int64 {
	k.mu.Lock()
	defer k.mu.Unlock()
	return k.now
}
func (k *Clock) logical(t time.Time) int64 {
	d := time.Until(t)
	return k.Now() + int64((d+500*time.Millisecond)/time.Second)
}
func (k *Clock) Tick(sec int64) {
	k.mu.Lock()
	k.now += sec
	now := k.now
	conns := append([]*FakeConn(nil), k.conns...)
	lis := append([]*FakeListener(nil), k.lis...)
	k.mu.Unlock()
	for _, c := range conns {
		c.expire(now)
	}
	for _, l := range lis {
		l.expire(now)
	}
}

// ---- listener ---------------------------------------------------------------

type tempErr struct{}

func (tempErr) Error() string   { return "fake accept timeout" }
func (tempErr) Timeout() bool   { return true }
func (tempErr) Temporary() bool { return true }

type closedErr struct{}

func (closedErr) Error() string   { return "use of closed fake listener" }
func (closedErr) Timeout() bool   { return false }
func (closedErr) Temporary() bool { return false }

// FakeListener is a tacquito.DeadlineListener handing out scripted connections.
type FakeListener struct {
	mu       sync.Mutex
	cond     *sync.Cond
	q        []interface{} // *FakeConn or error
	closed   bool
	deadline time.Time
	rec      *Rec
	OnAccept func() // called (unlocked) every time Accept is entered
	Waiting  int    // number of times Accept found the queue empty
	Parked   bool   // Accept is blocked on an empty queue right now
	clk      *Clock
	dlL      int64 // logical accept deadline
	timedOut bool
}

func (l *FakeListener) expire(now int64) {
	l.mu.Lock()
	if l.Parked && l.dlL > 0 && l.dlL <= now {
		l.timedOut = true
		l.cond.Broadcast()
	}
	l.mu.Unlock()
}
func (l *FakeListener) IsClosed() bool {
	l.mu.Lock()
	defer l.mu.Unlock()
	return l.closed
}
func (l *FakeListener) IsParked() bool {
	l.mu.Lock()
	defer l.mu.Unlock()
	return l.Parked && len(l.q) == 0 && !l.timedOut // something queued or an expired deadline: it is about to run
}

func NewFakeListener(rec *Rec) *FakeListener {
	l := &FakeListener{rec: rec}
	l.cond = sync.NewCond(&l.mu)
	return l
}

func (l *FakeListener) Offer(c *FakeConn) {
	l.mu.Lock()
	l.q = append(l.q, c)
	l.cond.Broadcast()
	l.mu.Unlock()
}

// OfferErr makes the next Accept return err.
func (l *FakeListener) OfferErr(err error) {
	l.mu.Lock()
	l.q = append(l.q, err)
	l.cond.Broadcast()
	l.mu.Unlock()
}

func (l *FakeListener) Accept() (net.Conn, error) {
	if l.OnAccept != nil {
		l.OnAccept()
	}
	l.mu.Lock()
	defer l.mu.Unlock()
	for {
		if len(l.q) > 0 {
			x := l.q[0]
			l.q = l.q[1:]
			if c, ok := x.(*FakeConn); ok {
				return c, nil
			}
			return nil, x.(error)
		}
		if l.closed {
			return nil, &net.OpError{Op: "accept", Net: "fake", Err: closedErr{}}
		}
		if l.timedOut {
			l.timedOut = false
			return nil, &net.OpError{Op: "accept", Net: "fake", Err: tempErr{}}
		}
		l.Waiting++
		l.Parked = true
		l.cond.Broadcast()
		l.cond.Wait()
		l.Parked = false
	}
}

func (l *FakeListener) Close() error {
	l.mu.Lock()
	if l.closed {
		l.mu.Unlock()
		return &net.OpError{Op: "close", Net: "fake", Err: net.ErrClosed} // like a real listener closed twice
	}
	l.closed = true
	if l.rec != nil {
		// recorded before the accept loop can observe the closure (and Serve can go on to return)
		l.rec.Emit(E{"e": "lclose"})
	}
	l.cond.Broadcast()
	l.mu.Unlock()
	return nil
}

// Kick wakes a parked Accept with a temporary (deadline) error so the loop polls its context.
func (l *FakeListener) Kick() {
	l.OfferErr(&net.OpError{Op: "accept", Net: "fake", Err: tempErr{}})
}

func (l *FakeListener) Addr() net.Addr {
	return &net.TCPAddr{IP: net.ParseIP("192.0.2.1"), Port: 49}
}
func (l *FakeListener) SetDeadline(t time.Time) error {
	l.mu.Lock()
	l.deadline = t
	if l.clk != nil {
		l.dlL = l.clk.logical(t)
	}
	l.mu.Unlock()
	return nil
}

// ---- connection -------------------------------------------------------------

type timeoutErr struct{}

func (timeoutErr) Error() string   { return "fake i/o timeout" }
func (timeoutErr) Timeout() bool   { return true }
func (timeoutErr) Temporary() bool { return true }

// FakeConn is a scripted net.Conn: Read returns exactly the chunks fed, signals when it
// blocks on empty input (the quiescence point), deadlines are simulated events.
type FakeConn struct {
	ID     int
	mu     sync.Mutex
	cond   *sync.Cond
	buf    [][]byte
	eof    bool
	fire   bool
	closed bool
	// observation
	blocked   bool
	Blocks    int // number of times Read parked on empty input
	Reads     int // number of Read calls that returned data
	armed     bool
	armedAt   time.Time
	Arms      int
	Written   [][]byte
	remote    net.Addr
	rec       *Rec
	quiet     bool // do not emit rd/arm events (bulk scenarios)
	Extra     E    // extra fields added to wr events (e.g. the connection's key)
	clk       *Clock
	dlL       int64 // logical read deadline
	AtGate    bool  // the connection goroutine is parked in RemoteAddr
	RaddrGate chan struct{}
	DeferCl   *int32 // while *DeferCl == 1 the closure is not recorded here (bursts: the driver records it afterwards)
	// gate: when non-nil, Read parks before looking at input until released (C17 schedules)
}

func NewFakeConn(id int, remote net.Addr, rec *Rec) *FakeConn {
	c := &FakeConn{ID: id, remote: remote, rec: rec}
	c.cond = sync.NewCond(&c.mu)
	return c
}

func (c *FakeConn) emit(e E) {
	if c.rec != nil {
		e["c"] = c.ID
		c.rec.Emit(e)
	}
}

func (c *FakeConn) expire(now int64) {
	c.mu.Lock()
	if c.blocked && c.armed && c.dlL > 0 && c.dlL <= now && !c.closed {
		c.fire = true
		c.blocked = false
		c.cond.Broadcast()
	}
	c.mu.Unlock()
}
func (c *FakeConn) IsBlocked() bool {
	c.mu.Lock()
	defer c.mu.Unlock()
	return c.blocked && len(c.buf) == 0 && !c.fire && !c.eof
}
func (c *FakeConn) IsAtGate() bool {
	c.mu.Lock()
	defer c.mu.Unlock()
	return c.AtGate
}

func (c *FakeConn) Read(p []byte) (int, error) {
	c.mu.Lock()
	defer c.mu.Unlock()
	for {
		if c.closed {
			return 0, net.ErrClosed
		}
		if len(c.buf) > 0 {
			ch := c.buf[0]
			n := copy(p, ch)
			if n < len(ch) {
				c.buf[0] = ch[n:]
			} else {
				c.buf = c.buf[1:]
			}
			c.Reads++
			if !c.quiet {
				c.emit(E{"e": "rd", "n": n, "armed": c.armed})
			}
			return n, nil
		}
		if c.fire {
			c.fire = false
			c.armed = false
			c.emit(E{"e": "rdtimeout"})
			return 0, &net.OpError{Op: "read", Net: "fake", Err: timeoutErr{}}
		}
		if c.eof {
			return 0, io.EOF
		}
		if !c.blocked {
			c.blocked = true
			c.Blocks++
			c.emit(E{"e": "rdblock", "armed": c.armed, "dl": c.dlL})
		}
		c.cond.Broadcast()
		c.cond.Wait()
	}
}

func (c *FakeConn) Write(p []byte) (int, error) {
	c.mu.Lock()
	if c.closed {
		c.mu.Unlock()
		return 0, net.ErrClosed
	}
	cp := append([]byte(nil), p...)
	c.Written = append(c.Written, cp)
	c.mu.Unlock()
	ev := E{"e": "wr", "b": B(cp)}
	for k, v := range c.Extra {
		ev[k] = v
	}
	c.emit(ev)
	return len(p), nil
}

func (c *FakeConn) Close() error {
	c.mu.Lock()
	already := c.closed
	c.closed = true
	if !already && !(c.DeferCl != nil && atomic.LoadInt32(c.DeferCl) == 1) {
		// recorded before anyone waiting for the closure can go on (and start the next scenario)
		c.emit(E{"e": "cl"})
	}
	c.cond.Broadcast()
	c.mu.Unlock()
	return nil
}

func (c *FakeConn) LocalAddr() net.Addr { return &net.TCPAddr{IP: net.ParseIP("192.0.2.1"), Port: 49} }
func (c *FakeConn) RemoteAddr() net.Addr {
	if c.RaddrGate != nil {
		c.mu.Lock()
		c.AtGate = true
		c.mu.Unlock()
		<-c.RaddrGate
		c.mu.Lock()
		c.AtGate = false
		c.mu.Unlock()
	}
	return c.remote
}
func (c *FakeConn) SetDeadline(t time.Time) error { return c.SetReadDeadline(t) }
func (c *FakeConn) SetReadDeadline(t time.Time) error {
	c.mu.Lock()
	c.armed = !t.IsZero()
	c.armedAt = t
	c.Arms++
	if c.clk != nil && !t.IsZero() {
		c.dlL = c.clk.logical(t)
	}
	dl := c.dlL
	c.mu.Unlock()
	if !c.quiet {
		c.emit(E{"e": "arm", "finite": !t.IsZero(), "dl": dl})
	}
	return nil
}
func (c *FakeConn) SetWriteDeadline(t time.Time) error { return nil }

// ---- driver side ------------------------------------------------------------

// Feed makes the given chunks available to Read, one Read call per chunk.
func (c *FakeConn) Feed(chunks ...[]byte) {
	c.mu.Lock()
	for _, ch := range chunks {
		if len(ch) > 0 {
			c.buf = append(c.buf, append([]byte(nil), ch...))
		}
	}
	c.blocked = false
	c.cond.Broadcast()
	c.mu.Unlock()
}

// EOF makes Read return io.EOF once the fed input is consumed.
func (c *FakeConn) EOF() {
	c.mu.Lock()
	c.eof = true
	c.blocked = false
	c.cond.Broadcast()
	c.mu.Unlock()
}

// Fire makes the pending (or next) blocked Read fail with a timeout, as an expired deadline does.
func (c *FakeConn) Fire() {
	c.mu.Lock()
	c.fire = true
	c.blocked = false
	c.cond.Broadcast()
	c.mu.Unlock()
}

// WaitQuiesce returns once the server side is parked in Read on empty input, or has closed
// the connection. It reports whether the connection is closed.
func (c *FakeConn) WaitQuiesce() bool {
	c.mu.Lock()
	defer c.mu.Unlock()
	for !c.closed && !(c.blocked && len(c.buf) == 0 && !c.eof && !c.fire) {
		c.cond.Wait()
	}
	return c.closed
}

func (c *FakeConn) IsClosed() bool {
	c.mu.Lock()
	defer c.mu.Unlock()
	return c.closed
}

func (c *FakeConn) TakeWritten() [][]byte {
	c.mu.Lock()
	defer c.mu.Unlock()
	w := c.Written
	c.Written = nil
	return w
}
