package main

import (
	"bufio"
	"context"
	"encoding/json"
	"fmt"
	"net"
	"os"
	"runtime"
	"sync"
	"time"

	tq "github.com/facebookincubator/tacquito"
	"github.com/facebookincubator/tacquito/cmds/server/config"
	"github.com/facebookincubator/tacquito/cmds/server/loader"
)

// ---- C15 (a): TLC schedules of the update/query loop replayed on the real loader through gate hooks -----

type CScen struct {
	ID    string          `json:"id"`
	Gens  []RCfg          `json:"gens"`  // configuration of generation 1, 2, 3 ...
	Addrs []string        `json:"addrs"` // address looked up by lookup i (1-based)
	Steps [][]interface{} `json:"steps"` // ["build",0] ["filters",0] ["spawn",i] ["q1",i] ["q2",i] ["q3",i]
}

type gateCtl struct {
	mu      sync.Mutex
	waiting map[string]chan struct{} // gate name -> release channel
	arrived chan string
}

func (g *gateCtl) wait(name string) {
	ch := make(chan struct{})
	g.mu.Lock()
	g.waiting[name] = ch
	g.mu.Unlock()
	g.arrived <- name
	<-ch
}
func (g *gateCtl) release(name string) bool {
	g.mu.Lock()
	ch := g.waiting[name]
	delete(g.waiting, name)
	g.mu.Unlock()
	if ch == nil {
		return false
	}
	close(ch)
	return true
}
func (g *gateCtl) expect(name string, d time.Duration) bool {
	deadline := time.After(d)
	for {
		select {
		case n := <-g.arrived:
			if n == name {
				return true
			}
		case <-deadline:
			return false
		}
	}
}

func cmdConcGate(args []string) {
	in, out := args[0], args[1]
	rec := NewRec(out)
	defer rec.Close()
	r := &refRun{rec: rec, log: NewCapLog(rec, false), sink: &jsonSink{rec: NewRec(os.DevNull)}, loaders: map[string]*loader.Loader{}}
	f, err := os.Open(in)
	if err != nil {
		panic(err)
	}
	defer f.Close()
	rd := bufio.NewReaderSize(f, 1<<20)
	n := 0
	for {
		line, rerr := rd.ReadBytes('\n')
		if len(line) > 1 {
			var sc CScen
			if e := json.Unmarshal(line, &sc); e != nil {
				panic(fmt.Errorf("bad conc scenario: %v", e))
			}
			runGate(r, &sc)
			n++
		}
		if rerr != nil {
			break
		}
	}
	loader.VerifHook = nil
	fmt.Printf("{\"scenarios\":%d,\"events\":%d}\n", n, rec.N)
}

func runGate(r *refRun, sc *CScen) {
	rec := r.rec
	g := &gateCtl{waiting: map[string]chan struct{}{}, arrived: make(chan string, 64)}
	var gating bool
	var gmu sync.Mutex
	port2i := map[int]int{}
	loader.VerifHook = func(ev string, a ...interface{}) {
		gmu.Lock()
		on := gating
		gmu.Unlock()
		if !on {
			return
		}
		switch ev {
		case "l.build":
			g.wait("build")
		case "l.filters":
			g.arrived <- "filters"
		case "l.q1", "l.q2", "l.q3":
			if ta, ok := a[1].(*net.TCPAddr); ok {
				g.wait(fmt.Sprintf("%s-%d", ev[2:], port2i[ta.Port]))
			}
		}
	}
	rec.Emit(E{"e": "reset", "sc": sc.ID})
	ch := chanCfg{ch: make(chan config.ServerConfig, 1)}
	ld := r.newLoader(ch)
	cfgs := make([]config.ServerConfig, len(sc.Gens))
	snaps := make([]string, len(sc.Gens))
	for i := range sc.Gens {
		cfgs[i] = renderCfg(&sc.Gens[i])
		snaps[i] = norm(cfgs[i])
		rec.Emit(E{"e": "gen", "g": i + 1, "cfg": sc.Gens[i]})
	}
	ch.ch <- cfgs[0]
	ld.BlockUntilLoaded()
	ld.Get(context.Background(), &net.TCPAddr{IP: net.ParseIP("203.0.113.1"), Port: 1}) // generation 1 fully installed
	gmu.Lock()
	gating = true
	gmu.Unlock()
	gen := 1
	type res struct {
		i   int
		ok  bool
		key []byte
	}
	results := make(chan res, 16)
	started := map[int]bool{}
	for _, st := range sc.Steps {
		op, _ := st[0].(string)
		i := 0
		if len(st) > 1 {
			if f, ok := st[1].(float64); ok {
				i = int(f)
			}
		}
		okStep := true
		switch op {
		case "build":
			if gen < len(cfgs) {
				rec.Emit(E{"e": "upd", "phase": "build", "g": gen + 1})
				ch.ch <- cfgs[gen]
				okStep = g.expect("build", 3*time.Second)
			}
		case "filters":
			rec.Emit(E{"e": "upd", "phase": "filters", "g": gen + 1})
			okStep = g.release("build") && g.expect("filters", 3*time.Second)
			gen++
		case "spawn":
			addr := parseAddr(sc.Addrs[(i-1)%len(sc.Addrs)])
			addr.Port = 30000 + i
			port2i[addr.Port] = i
			started[i] = true
			rec.Emit(E{"e": "lk", "i": i, "phase": "start", "addr": B(addr.IP)})
			go func(i int, a *net.TCPAddr) {
				key, h, err := ld.Get(context.Background(), a)
				results <- res{i, err == nil && key != nil && h != nil, key}
			}(i, addr)
			okStep = g.expect(fmt.Sprintf("q1-%d", i), 3*time.Second)
		case "q1", "q2", "q3":
			if !started[i] {
				break // the lookup already answered (a filter refused it): the remaining model steps are stutters
			}
			next := map[string]string{"q1": "q2", "q2": "q3", "q3": ""}[op]
			okStep = g.release(fmt.Sprintf("%s-%d", op, i))
			if okStep {
				okStep = false
				deadline := time.After(3 * time.Second)
			wait:
				for {
					select {
					case nme := <-g.arrived:
						if next != "" && nme == fmt.Sprintf("%s-%d", next, i) {
							okStep = true
							break wait
						}
					case x := <-results:
						k := x.key
						if k == nil {
							k = []byte{}
						}
						rec.Emit(E{"e": "lk", "i": x.i, "phase": "end", "ok": x.ok, "key": B(k)})
						delete(started, x.i)
						if x.i == i {
							okStep = true
							break wait
						}
					case <-deadline:
						break wait
					}
				}
			}
		}
		if !okStep {
			rec.Emit(E{"e": "offscript", "op": op, "i": i})
			break
		}
	}
	// let everything run to completion
	gmu.Lock()
	gating = false
	gmu.Unlock()
	for k := 0; k < 50; k++ {
		g.mu.Lock()
		names := []string{}
		for nme := range g.waiting {
			names = append(names, nme)
		}
		g.mu.Unlock()
		for _, nme := range names {
			g.release(nme)
		}
		if len(started) == 0 && len(names) == 0 {
			break
		}
		select {
		case x := <-results:
			k2 := x.key
			if k2 == nil {
				k2 = []byte{}
			}
			rec.Emit(E{"e": "lk", "i": x.i, "phase": "end", "ok": x.ok, "key": B(k2), "late": true})
			delete(started, x.i)
		case <-g.arrived:
		case <-time.After(20 * time.Millisecond):
		}
	}
	// everything has settled: one more lookup per address, which meets no reload and must be answered from the last
	// generation installed (whatever lookups that were in flight across a reload left behind)
	for k, a := range sc.Addrs {
		addr := parseAddr(a)
		addr.Port = 31000 + k
		rec.Emit(E{"e": "lk", "i": 100 + k, "phase": "start", "addr": B(addr.IP)})
		key, h, err := ld.Get(context.Background(), addr)
		kk := key
		if kk == nil {
			kk = []byte{}
		}
		rec.Emit(E{"e": "lk", "i": 100 + k, "phase": "end", "ok": err == nil && key != nil && h != nil, "key": B(kk)})
	}
	// configurations handed to the loader must not have been written
	changed := []int{}
	for i := range cfgs {
		if norm(cfgs[i]) != snaps[i] {
			changed = append(changed, i+1)
		}
	}
	rec.Emit(E{"e": "immut", "changed": changed})
}

// ---- C15 (c): concurrent workload for the race detector (harness built with -race) ------------------

type StressScen struct {
	ID      string    `json:"id"`
	Cfgs    []RCfg    `json:"cfgs"`    // configurations the reloader cycles through
	Clients [][]RStep `json:"clients"` // per client connection: its packets
	Addr    string    `json:"addr"`
	Reloads int       `json:"reloads"`
	Rounds  int       `json:"rounds"`
	Churn   int       `json:"churn"` // server lifetimes cancelled while connections keep arriving
}

func cmdConcStress(args []string) {
	in, out := args[0], args[1]
	rec := NewRec(out)
	defer rec.Close()
	f, err := os.Open(in)
	if err != nil {
		panic(err)
	}
	defer f.Close()
	rd := bufio.NewReaderSize(f, 1<<20)
	n := 0
	for {
		line, rerr := rd.ReadBytes('\n')
		if len(line) > 1 {
			var sc StressScen
			if e := json.Unmarshal(line, &sc); e != nil {
				panic(fmt.Errorf("bad stress scenario: %v", e))
			}
			runStress(rec, &sc)
			n++
		}
		if rerr != nil {
			break
		}
	}
	fmt.Printf("{\"scenarios\":%d,\"events\":%d}\n", n, rec.N)
}

func runStress(rec *Rec, sc *StressScen) {
	quiet := &Rec{Null: true}
	r := &refRun{rec: quiet, log: NewCapLog(quiet, false), sink: &jsonSink{rec: quiet}, loaders: map[string]*loader.Loader{}, byAddr: map[string]*refConnState{}}
	r.sidPool = []uint32{0x11111111, 0x22222222, 0x33333333, 0x44444444}
	rec.Emit(E{"e": "reset", "sc": sc.ID})
	cfgs := make([]config.ServerConfig, len(sc.Cfgs))
	snaps := make([]string, len(sc.Cfgs))
	for i := range sc.Cfgs {
		cfgs[i] = renderCfg(&sc.Cfgs[i])
		snaps[i] = norm(cfgs[i])
	}
	ch := chanCfg{ch: make(chan config.ServerConfig, 1)}
	r.cur = r.newLoader(ch)
	ch.ch <- cfgs[0]
	r.cur.BlockUntilLoaded()
	r.start()
	var wg sync.WaitGroup
	stopReload := make(chan struct{})
	wg.Add(1)
	go func() {
		defer wg.Done()
		for k := 0; k < sc.Reloads; k++ {
			select {
			case <-stopReload:
				return
			case ch.ch <- cfgs[(k+1)%len(cfgs)]:
			}
			time.Sleep(200 * time.Microsecond)
		}
	}()
	var cw sync.WaitGroup
	for ci, steps := range sc.Clients {
		cw.Add(1)
		go func(ci int, steps []RStep) {
			defer cw.Done()
			for round := 0; round < sc.Rounds; round++ {
				st := r.open(1000*round+ci+1, sc.Addr, nil)
				for i := range steps {
					s := steps[i]
					if r.feed(st, &s, i+1) {
						break
					}
				}
				if !st.conn.IsClosed() {
					st.conn.EOF()
					st.conn.WaitQuiesce()
				}
			}
		}(ci, steps)
	}
	cw.Wait()
	close(stopReload)
	wg.Wait()
	r.stop()
	// shutdown while connections keep arriving: the accept loop, the connection goroutines it has just started and
	// the final wait run against each other
	for k := 0; k < sc.Churn; k++ {
		r.start()
		lis := r.lis
		stopOffer := make(chan struct{})
		var ow sync.WaitGroup
		for g := 0; g < 2; g++ {
			ow.Add(1)
			go func(g int) {
				defer ow.Done()
				for n := 0; ; n++ {
					select {
					case <-stopOffer:
						return
					default:
					}
					ta := parseAddr(sc.Addr)
					ta.Port = 20000 + (k*1000+n*2+g)%40000
					fc := NewFakeConn(900000+n, ta, nil)
					fc.quiet = true
					if n%3 == 0 {
						fc.Feed([]byte{0xc0, 1, 1, 1, 0, 0, 0, byte(n), 0, 0, 0, 0})
					}
					fc.EOF()
					lis.Offer(fc)
					if n%4 == 3 {
						runtime.Gosched()
					}
				}
			}(g)
		}
		// a batch queued right before the cancellation: the accept loop is still working through it when it notices
		for n := 0; n < 24; n++ {
			ta := parseAddr(sc.Addr)
			ta.Port = 20000 + (k*1000+500+n)%40000
			fc := NewFakeConn(950000+n, ta, nil)
			fc.quiet = true
			fc.EOF()
			lis.Offer(fc)
		}
		for i := 0; i < (37*k)%60; i++ {
			runtime.Gosched()
		}
		r.stop()
		close(stopOffer)
		ow.Wait()
	}
	// the library's own client against the library's server over loopback TCP: several real Clients at once, each building
	// its packets with the library's constructors (random session ids included) and sending PAP-shaped logins
	libraryClients(sc.Rounds)
	changed := []int{}
	for i := range cfgs {
		if norm(cfgs[i]) != snaps[i] {
			changed = append(changed, i+1)
		}
	}
	rec.Emit(E{"e": "immut", "changed": changed})
	rec.Emit(E{"e": "stressdone", "clients": len(sc.Clients), "rounds": sc.Rounds, "reloads": sc.Reloads})
}

var _ = tq.MaxBodyLength

type tcpProv struct{}

func (tcpProv) Get(ctx context.Context, remote net.Addr) ([]byte, tq.Handler, error) {
	return []byte("libkey"), tq.HandlerFunc(func(resp tq.Response, req tq.Request) {
		resp.Reply(tq.NewAuthenReply(tq.SetAuthenReplyStatus(tq.AuthenStatusFail), tq.SetAuthenReplyServerMsg("no")))
	}), nil
}

func libraryClients(rounds int) {
	ln, err := net.Listen("tcp", "127.0.0.1:0")
	if err != nil {
		return
	}
	ctx, cancel := context.WithCancel(context.Background())
	srv := tq.NewServer(NewCapLog(&Rec{Null: true}, false), tcpProv{})
	done := make(chan struct{})
	go func() {
		srv.Serve(ctx, ln.(*net.TCPListener))
		close(done)
	}()
	var wg sync.WaitGroup
	for g := 0; g < 8; g++ {
		wg.Add(1)
		go func(g int) {
			defer wg.Done()
			for k := 0; k < 4*rounds; k++ {
				cl, err := tq.NewClient(tq.SetClientDialer("tcp", ln.Addr().String(), []byte("libkey")))
				if err != nil {
					return
				}
				for i := 0; i < 3; i++ {
					h := tq.NewHeader(tq.SetHeaderVersion(tq.Version{MajorVersion: tq.MajorVersion, MinorVersion: 1}), tq.SetHeaderType(tq.Authenticate),
						tq.SetHeaderRandomSessionID())
					body := tq.NewAuthenStart(tq.SetAuthenStartAction(tq.AuthenActionLogin), tq.SetAuthenStartPrivLvl(1), tq.SetAuthenStartType(tq.AuthenTypePAP),
						tq.SetAuthenStartService(tq.AuthenServiceLogin), tq.SetAuthenStartUser("u"), tq.SetAuthenStartPort("tty0"), tq.SetAuthenStartRemAddr("r"),
						tq.SetAuthenStartData("pw"))
					cl.Send(tq.NewPacket(tq.SetPacketHeader(h), tq.SetPacketBodyUnsafe(body)))
				}
				cl.Close()
			}
		}(g)
	}
	wg.Wait()
	cancel()
	ln.Close()
	select {
	case <-done:
	case <-time.After(15 * time.Second):
	}
}
