package main

import (
	"fmt"
	"math/rand"

	tq "github.com/facebookincubator/tacquito"
)

// cmdArgs <out> <seed> <n>: the argument helpers of authorize_fields.go (ASV, Service, CommandSplit, Command,
// CommandArgs, CommandArgsNoLE, Unique) on seeded argument lists; TLC compares with the operators of Authz.tla
// that the C11 oracle is built from (conformance of the oracle's reading of a request).
func cmdArgs(args []string) {
	out := args[0]
	var seed int64 = 1
	n := 1000
	fmt.Sscan(args[1], &seed)
	fmt.Sscan(args[2], &n)
	rec := NewRec(out)
	defer rec.Close()
	rng := rand.New(rand.NewSource(seed))
	attrs := []string{"service", "cmd", "cmd-arg", "protocol", "scope", "priv-lvl", "x", "", " cmd", "CMD"}
	vals := []string{"shell", "show", "<cr>", "<CR>", "<cR>", "ip", "a=b", "a*b", "", " ", "version", "terminal ", " x", "\t"}
	for i := 0; i < n; i++ {
		k := rng.Intn(7)
		a := make(tq.Args, k)
		for j := range a {
			s := attrs[rng.Intn(len(attrs))] + []string{"=", "*", "", " = "}[rng.Intn(4)] + vals[rng.Intn(len(vals))]
			if rng.Intn(6) == 0 {
				s = " " + s + "\n"
			}
			if rng.Intn(10) == 0 && j > 0 {
				s = string(a[rng.Intn(j)])
			}
			a[j] = tq.Arg(s)
		}
		asv := [][][]int{}
		for _, x := range a {
			at, sp, v := x.ASV()
			asv = append(asv, [][]int{S(at), S(sp), S(v)})
		}
		ca, cs, cv := a.CommandSplit()
		uq := [][]int{}
		for _, x := range a.Unique() {
			uq = append(uq, S(string(x)))
		}
		rec.Emit(E{"e": "args", "args": argsJ(a), "asv": asv, "service": S(a.Service()), "csplit": [][]int{S(ca), S(cs), S(cv)},
			"command": S(a.Command()), "cargs": S(a.CommandArgs()), "cargsnole": S(a.CommandArgsNoLE()), "unique": uq})
	}
	fmt.Printf("{\"events\":%d}\n", rec.N)
}
