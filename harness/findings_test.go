package main

// Demonstrations of the genuine defects found on the pinned tree (DESIGN.md section 6): each test
// fails on the tree before the corresponding "fix:" commit and passes after it.
//   cd /verif/harness && GOFLAGS=-mod=mod go test -tags verif -run TestFinding -count=1 .

import (
	"context"
	"fmt"
	"strings"
	"testing"

	tq "github.com/facebookincubator/tacquito"
	"github.com/facebookincubator/tacquito/cmds/server/config"
	"github.com/facebookincubator/tacquito/cmds/server/config/accounters/local"
	"github.com/facebookincubator/tacquito/cmds/server/config/authenticators/bcrypt"
	"github.com/facebookincubator/tacquito/cmds/server/config/authorizers/stringy"
	"github.com/facebookincubator/tacquito/cmds/server/handlers"
	jsonl "github.com/facebookincubator/tacquito/cmds/server/loader/json"
	yamll "github.com/facebookincubator/tacquito/cmds/server/loader/yaml"
)

type countResp struct {
	replies []tq.EncoderDecoder
	next    tq.Handler
}

func (c *countResp) Reply(v tq.EncoderDecoder) (int, error) {
	c.replies = append(c.replies, v)
	return 0, nil
}
func (c *countResp) ReplyWithContext(ctx context.Context, v tq.EncoderDecoder, w ...tq.Writer) (int, error) {
	return c.Reply(v)
}
func (c *countResp) Write(p *tq.Packet) (int, error) { return 0, nil }
func (c *countResp) Next(n tq.Handler)               { c.next = n }
func (c *countResp) RegisterWriter(tq.Writer)        {}
func (c *countResp) Context(ctx context.Context)     {}

func mustBody(t *testing.T, v tq.EncoderDecoder) []byte {
	b, err := v.MarshalBinary()
	if err != nil {
		t.Fatal(err)
	}
	return b
}

func authorReq(t *testing.T, user string, args ...string) tq.Request {
	a := tq.Args{}
	a.Append(args...)
	b := mustBody(t, tq.NewAuthorRequest(tq.SetAuthorRequestMethod(tq.AuthenMethodTacacsPlus), tq.SetAuthorRequestPrivLvl(1),
		tq.SetAuthorRequestType(tq.AuthenTypeASCII), tq.SetAuthorRequestService(tq.AuthenServiceLogin),
		tq.SetAuthorRequestUser(tq.AuthenUser(user)), tq.SetAuthorRequestPort("tty0"), tq.SetAuthorRequestRemAddr("1.2.3.4"), tq.SetAuthorRequestArgs(a)))
	return tq.Request{Header: *tq.NewHeader(tq.SetHeaderType(tq.Authorize), tq.SetHeaderVersion(tq.Version{MajorVersion: 12})), Body: b, Context: context.Background()}
}

func TestFindingF3StringyDoubleReply(t *testing.T) {
	l := NewCapLog(nil, false)
	h, _ := stringy.New(l).New(config.User{Name: "alice", Commands: []config.Command{{Name: "*", Action: config.PERMIT}}})
	r := &countResp{}
	h.Handle(r, authorReq(t, "mallory", "service=shell", "cmd=show"))
	if len(r.replies) != 1 {
		t.Fatalf("stringy replied %d times for a user-name mismatch", len(r.replies))
	}
}

// encResp answers like the library's response object as far as encoding goes: a reply that cannot be marshalled is an
// error and is not counted as written
type encResp struct{ written []tq.EncoderDecoder }

func (c *encResp) Reply(v tq.EncoderDecoder) (int, error) {
	if _, err := v.MarshalBinary(); err != nil {
		return 0, err
	}
	c.written = append(c.written, v)
	return 0, nil
}
func (c *encResp) ReplyWithContext(ctx context.Context, v tq.EncoderDecoder, w ...tq.Writer) (int, error) {
	return c.Reply(v)
}
func (c *encResp) Write(p *tq.Packet) (int, error) { return 0, nil }
func (c *encResp) Next(n tq.Handler)               {}
func (c *encResp) RegisterWriter(tq.Writer)        {}
func (c *encResp) Context(ctx context.Context)     {}

// F12: a configured value that no reply argument can carry left the accepted request without any reply
func TestFindingF12UnencodableSessionValue(t *testing.T) {
	l := NewCapLog(nil, false)
	u := config.User{Name: "alice", Scopes: []string{"s1"}, Services: []config.Service{{Name: "shell",
		SetValues: []config.Value{{Name: "roles", Values: []string{strings.Repeat("r", 300)}}}}}}
	h, _ := stringy.New(l).New(u)
	r := &encResp{}
	h.Handle(r, authorReq(t, "alice", "service=shell"))
	if len(r.written) != 1 {
		t.Fatalf("session authorization wrote %d replies for a value that cannot be encoded, want exactly one", len(r.written))
	}
}

type failSecret struct{}

func (failSecret) GetSecret(ctx context.Context, name, group string) ([]byte, error) {
	return nil, fmt.Errorf("keychain down")
}

func papStart(t *testing.T, user, pw string, minor uint8) tq.Request {
	b := mustBody(t, tq.NewAuthenStart(tq.SetAuthenStartAction(tq.AuthenActionLogin), tq.SetAuthenStartPrivLvl(1), tq.SetAuthenStartType(tq.AuthenTypePAP),
		tq.SetAuthenStartService(tq.AuthenServiceLogin), tq.SetAuthenStartUser(tq.AuthenUser(user)), tq.SetAuthenStartPort("tty0"), tq.SetAuthenStartRemAddr("1.2.3.4"), tq.SetAuthenStartData(tq.AuthenData(pw))))
	return tq.Request{Header: *tq.NewHeader(tq.SetHeaderType(tq.Authenticate), tq.SetHeaderVersion(tq.Version{MajorVersion: 12, MinorVersion: minor})), Body: b, Context: context.Background()}
}

func TestFindingF7F3BcryptKeychain(t *testing.T) {
	l := NewCapLog(nil, false)
	h, err := bcrypt.New(l, failSecret{}).New("alice", map[string]string{}) // no "hash": the keychain is consulted
	if err != nil {
		t.Fatal(err)
	}
	r := &countResp{}
	func() {
		defer func() {
			if p := recover(); p != nil {
				t.Fatalf("bcrypt authenticator paniced without a hash option: %v", p)
			}
		}()
		h.Handle(r, papStart(t, "alice", "pw", 1))
	}()
	if len(r.replies) != 1 {
		t.Fatalf("bcrypt replied %d times after a keychain error", len(r.replies))
	}
}

func TestFindingF5RegexWholeString(t *testing.T) {
	l := NewCapLog(nil, false)
	u := config.User{Name: "alice", Commands: []config.Command{{Name: "show", Match: []string{"terminal|exclusive"}, Action: config.PERMIT}}}
	h, _ := stringy.New(l).New(u)
	for _, arg := range []string{"x exclusive", "terminal ; reload"} {
		r := &countResp{}
		h.Handle(r, authorReq(t, "alice", "service=shell", "cmd=show", "cmd-arg="+arg))
		rep := r.replies[0].(*tq.AuthorReply)
		if rep.Status == tq.AuthorStatusPassAdd || rep.Status == tq.AuthorStatusPassRepl {
			t.Errorf("pattern terminal|exclusive authorised argument string %q", arg)
		}
	}
}

type capSink struct{ lines []string }

func (c *capSink) Printf(format string, args ...interface{}) {
	c.lines = append(c.lines, fmt.Sprintf(format, args...))
}

func TestFindingF6AccountingVerbatim(t *testing.T) {
	l := NewCapLog(nil, false)
	sink := &capSink{}
	acc, _ := local.New(l, local.SetLogSink(sink))
	h := acc.New(nil)
	a := tq.Args{}
	a.Append("cmd=show 100% of %d x")
	b := mustBody(t, tq.NewAcctRequest(tq.SetAcctRequestFlag(tq.AcctFlagStart), tq.SetAcctRequestMethod(tq.AuthenMethodTacacsPlus), tq.SetAcctRequestPrivLvl(1),
		tq.SetAcctRequestType(tq.AuthenTypeASCII), tq.SetAcctRequestService(tq.AuthenServiceLogin), tq.SetAcctRequestUser("alice"), tq.SetAcctRequestPort("tty0"),
		tq.SetAcctRequestRemAddr("1.2.3.4"), tq.SetAcctRequestArgs(a)))
	r := &countResp{}
	h.Handle(r, tq.Request{Header: *tq.NewHeader(tq.SetHeaderType(tq.Accounting)), Body: b, Context: context.Background()})
	if len(sink.lines) != 1 || !strings.Contains(sink.lines[0], "show 100% of %d x") {
		t.Fatalf("accounting record mangled: %q", sink.lines)
	}
}

func TestFindingF10PapMinor0PasswordLogged(t *testing.T) {
	rec := NewRec(t.TempDir() + "/t.ndjson")
	l := NewCapLog(rec, true)
	l.Tokens = []string{"S3cretPw"}
	h := handlers.NewAuthenticateStart(l, config.Provider{})
	r := &countResp{}
	h.Handle(r, papStart(t, "alice", "S3cretPw", 0)) // PAP with minor version 0: "unknown authenticate start packet type"
	rec.Close()
	data, _ := readFile(rec.f.Name())
	for _, line := range strings.Split(data, "\n") {
		if strings.Contains(line, `"hits":["S3cretPw"`) {
			t.Fatalf("password shown by a log call: %s", line)
		}
	}
}

const docA = `{"secrets":[{"name":"s1","secret":{"group":"g","key":"k"},"handler":{"type":1},"type":1,"options":{"prefixes":"[\"10.0.0.0/8\"]"}}],
 "users":[{"name":"admin","scopes":["s1"],"commands":[{"name":"*","action":2}]},{"name":"bob","scopes":["s1"]}],"prefix_deny":["10.9.0.0/16"]}`
const docB = `{"secrets":[{"name":"s1","secret":{"group":"g","key":"k"},"handler":{"type":1},"type":1,"options":{"prefixes":"[\"10.0.0.0/8\"]"}}],
 "users":[{"name":"bob","scopes":["s1"]}]}`

func TestFindingF9ReloadEqualsFreshJSON(t *testing.T) {
	ld := jsonl.New()
	if err := ld.Unmarshal([]byte(docA)); err != nil {
		t.Fatal(err)
	}
	<-ld.Config()
	if err := ld.Unmarshal([]byte(docB)); err != nil {
		t.Fatal(err)
	}
	c := <-ld.Config()
	if len(c.Users) != 1 || c.Users[0].Name != "bob" || len(c.Users[0].Commands) != 0 {
		t.Errorf("after reload bob = %+v", c.Users)
	}
	if len(c.PrefixDeny) != 0 {
		t.Errorf("prefix_deny survived its removal: %v", c.PrefixDeny)
	}
}

func TestFindingF9ReloadEqualsFreshYAML(t *testing.T) {
	ld := yamll.New()
	if err := ld.Unmarshal([]byte(docA)); err != nil { // JSON is YAML
		t.Fatal(err)
	}
	<-ld.Config()
	if err := ld.Unmarshal([]byte(docB)); err != nil {
		t.Fatal(err)
	}
	c := <-ld.Config()
	if len(c.PrefixDeny) != 0 {
		t.Errorf("prefix_deny survived its removal: %v", c.PrefixDeny)
	}
}
