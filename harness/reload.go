package main

import (
	"bufio"
	"context"
	"encoding/json"
	"fmt"
	"net"
	"os"
	"path/filepath"
	"reflect"
	"sort"
	"strings"
	"sync"
	"sync/atomic"
	"time"

	"github.com/facebookincubator/tacquito/cmds/server/loader/fsnotify"
	"github.com/facebookincubator/tacquito/cmds/server/loader/yaml"

	"github.com/facebookincubator/tacquito/cmds/server/config"
	"github.com/facebookincubator/tacquito/cmds/server/config/accounters/local"
	"github.com/facebookincubator/tacquito/cmds/server/config/authenticators/bcrypt"
	"github.com/facebookincubator/tacquito/cmds/server/config/authorizers/stringy"
	"github.com/facebookincubator/tacquito/cmds/server/config/secret"
	"github.com/facebookincubator/tacquito/cmds/server/config/secret/prefix"
	"github.com/facebookincubator/tacquito/cmds/server/handlers"
	"github.com/facebookincubator/tacquito/cmds/server/loader"
	jsonl "github.com/facebookincubator/tacquito/cmds/server/loader/json"
	yamll "github.com/facebookincubator/tacquito/cmds/server/loader/yaml"
)

type RDoc struct {
	Doc    string `json:"doc"`    // identifier
	Text   string `json:"text"`   // the document as fed to the loader
	Parses bool   `json:"parses"` // generator's statement: syntactically a configuration
	MinOK  bool   `json:"minok"`  // has >= 1 secret and >= 1 user
}
type RHist struct {
	Secrets []string `json:"secrets,omitempty"` // shared secrets occurring in the documents (tokens looked for in logger calls)
	Burst   bool     `json:"burst,omitempty"`   // feed the documents back to back while the update loop is held inside its first build
	ID      string   `json:"id"`
	Fmt     string   `json:"fmt"` // yaml | json
	Via     string   `json:"via"` // unmarshal | load
	Docs    []RDoc   `json:"docs"`
	Probes  []string `json:"probes"` // addresses to look up after every good load
	Users   []string `json:"users"`  // user names to look for in the bound scope
}

type fileLoader interface {
	Load(path string) error
	Unmarshal(b []byte) error
	Config() chan config.ServerConfig
}

func newFileLoader(f string) fileLoader {
	if f == "json" {
		return jsonl.New()
	}
	return yamll.New()
}

func norm(c config.ServerConfig) string {
	b, err := json.Marshal(c)
	if err != nil {
		return "marshal-error: " + err.Error()
	}
	return string(b)
}

func (r *refRun) newLoader(ch chanCfg) *loader.Loader {
	acc, _ := local.New(r.log, local.SetLogSink(r.sink))
	ld, err := loader.NewLoader(context.Background(), ch,
		loader.SetLoggerProvider(r.log), loader.SetKeychainProvider(secret.New()), loader.SetConfigProvider(config.New()),
		loader.SetAuthorizerProvider(stringy.New(r.log)), loader.RegisterSecretProviderType(config.PREFIX, prefix.New(r.log)),
		loader.RegisterHandlerType(config.START, handlers.NewStart(r.log)), loader.RegisterAuthenticator(config.BCRYPT, bcrypt.New(r.log, okSecret{})),
		loader.RegisterAccounter(config.FILE, acc))
	if err != nil {
		panic(err)
	}
	return ld
}

// what a Loader answers for an address: served?, key, and which of the given user names exist in the bound scope
func probeLoader(ld *loader.Loader, addr string, users []string) (bool, []byte, []string) {
	key, h, err := ld.Get(context.Background(), parseAddr(addr))
	ok := err == nil && key != nil && h != nil
	found := []string{}
	if ok {
		// the handler returned by the prefix provider wraps the Start handler, which embeds the config provider
		if st, ok2 := unwrapStart(h); ok2 {
			for _, u := range users {
				if st.GetUser(u) != nil {
					found = append(found, u)
				}
			}
		}
	}
	sort.Strings(found)
	if key == nil {
		key = []byte{}
	}
	return ok, key, found
}

// cmdReload <histories.ndjson> <trace.ndjson>
func cmdReload(args []string) {
	in, out := args[0], args[1]
	rec := NewRec(out)
	defer rec.Close()
	r := &refRun{rec: rec, log: NewCapLog(rec, false), sink: &jsonSink{rec: NewRec(os.DevNull)}, loaders: map[string]*loader.Loader{}}
	tmp, err := os.MkdirTemp("", "vfreload")
	if err != nil {
		panic(err)
	}
	defer os.RemoveAll(tmp)
	f, err := os.Open(in)
	if err != nil {
		panic(err)
	}
	defer f.Close()
	rd := bufio.NewReaderSize(f, 1<<20)
	n := 0
	var watched []*RHist
	defer func() { r.runWatched(watched, tmp) }()
	for {
		line, rerr := rd.ReadBytes('\n')
		if len(line) > 1 {
			var h RHist
			if e := json.Unmarshal(line, &h); e != nil {
				panic(fmt.Errorf("bad history: %v", e))
			}
			n++
			if h.Via == "watch" {
				hh := h
				watched = append(watched, &hh)
				continue
			}
			rec.Emit(E{"e": "reset", "sc": h.ID})
			if h.Burst {
				r.burst(&h)
				continue
			}
			fl := newFileLoader(h.Fmt)
			var held []config.ServerConfig // every value received from Config(), kept as received
			var snaps []string             // its normal form at the time it was received
			ch := chanCfg{ch: make(chan config.ServerConfig, 1)}
			long := r.newLoader(ch)
			for i, d := range h.Docs {
				var lerr error
				if h.Via == "load" {
					p := filepath.Join(tmp, fmt.Sprintf("h%d-%d.%s", n, i, h.Fmt))
					os.WriteFile(p, []byte(d.Text), 0o644)
					lerr = fl.Load(p)
					os.Remove(p)
				} else {
					lerr = fl.Unmarshal([]byte(d.Text))
				}
				ev := E{"e": "load", "i": i + 1, "doc": d.Doc, "fmt": h.Fmt, "parses": d.Parses, "minok": d.MinOK, "ok": lerr == nil, "pub": "", "fresh": "", "freshok": false}
				// a fresh loader on the same text
				ff := newFileLoader(h.Fmt)
				ferr := ff.Unmarshal([]byte(d.Text))
				var fresh config.ServerConfig
				if ferr == nil {
					fresh = <-ff.Config()
					ev["fresh"] = norm(fresh)
					ev["freshok"] = true
				}
				var got config.ServerConfig
				if lerr == nil {
					select {
					case got = <-fl.Config():
						ev["pub"] = norm(got)
					default:
						ev["pub"] = "nothing-published"
					}
				} else {
					select {
					case x := <-fl.Config():
						ev["pub"] = "published-after-error: " + norm(x)
						ev["ok"] = true
					default:
					}
				}
				// did any value handed out earlier change?
				mutated := []int{}
				for k := range held {
					if norm(held[k]) != snaps[k] {
						mutated = append(mutated, k+1)
					}
				}
				ev["mutated"] = mutated
				rec.Emit(ev)
				if lerr == nil {
					held = append(held, got)
					snaps = append(snaps, norm(got))
					// the long-lived Loader gets the value; a fresh Loader gets the fresh one; both are probed
					ch.ch <- got
					for waitBuild(long, 1) == false {
					}
					fch := chanCfg{ch: make(chan config.ServerConfig, 1)}
					freshL := r.newLoader(fch)
					fch.ch <- fresh
					freshL.BlockUntilLoaded()
					for _, a := range h.Probes {
						ok1, k1, u1 := probeLoader(long, a, h.Users)
						ok2, k2, u2 := probeLoader(freshL, a, h.Users)
						rec.Emit(E{"e": "probe", "i": i + 1, "addr": a, "ok": ok1, "key": string(k1), "users": u1, "fok": ok2, "fkey": string(k2), "fusers": u2})
					}
				}
			}
		}
		if rerr != nil {
			break
		}
	}
	fmt.Printf("{\"histories\":%d,\"events\":%d}\n", n, rec.N)
}

// waitBuild: the loader consumes a configuration asynchronously; a lookup issued after the send is
// served by the same loop, so one round trip through Get orders us after the update.
func waitBuild(ld *loader.Loader, _ int) bool {
	ld.BlockUntilLoaded()
	ld.Get(context.Background(), &net.TCPAddr{IP: net.ParseIP("203.0.113.1"), Port: 1})
	return true
}

type userGetter interface {
	GetUser(string) *config.AAA
}

// unwrapStart digs the user set out of the handler a lookup returns (prefix.secretConfig{Handler: *handlers.Start}).
func unwrapStart(h interface{}) (userGetter, bool) {
	if g, ok := h.(userGetter); ok {
		return g, true
	}
	v := reflect.ValueOf(h)
	for v.Kind() == reflect.Ptr || v.Kind() == reflect.Interface {
		if v.IsNil() {
			return nil, false
		}
		v = v.Elem()
	}
	if v.Kind() == reflect.Struct {
		f := v.FieldByName("Handler")
		if f.IsValid() && f.CanInterface() {
			if g, ok := f.Interface().(userGetter); ok {
				return g, true
			}
		}
	}
	return nil, false
}

// burst: the file loader feeds a real loader.Loader directly; the update loop is parked inside its first build()
// (at a logger call) while the remaining documents are loaded back to back. Every document is good, so once
// everything has settled the Loader must answer like a fresh one built from the LAST document.
func (r *refRun) burst(h *RHist) {
	rec := r.rec
	fl := newFileLoader(h.Fmt)
	var consumed int32
	loader.VerifHook = func(ev string, a ...interface{}) {
		if ev == "l.filters" {
			atomic.AddInt32(&consumed, 1)
		}
	}
	defer func() { loader.VerifHook = nil }()
	acc, _ := local.New(r.log, local.SetLogSink(r.sink))
	parked, release := r.log.ArmGate()
	long, err := loader.NewLoader(context.Background(), fl,
		loader.SetLoggerProvider(r.log), loader.SetKeychainProvider(secret.New()), loader.SetConfigProvider(config.New()),
		loader.SetAuthorizerProvider(stringy.New(r.log)), loader.RegisterSecretProviderType(config.PREFIX, prefix.New(r.log)),
		loader.RegisterHandlerType(config.START, handlers.NewStart(r.log)), loader.RegisterAuthenticator(config.BCRYPT, bcrypt.New(r.log, okSecret{})),
		loader.RegisterAccounter(config.FILE, acc))
	if err != nil {
		panic(err)
	}
	okAll := true
	if e := fl.Unmarshal([]byte(h.Docs[0].Text)); e != nil {
		okAll = false
	}
	held := false
	select {
	case <-parked:
		held = true
	case <-time.After(2 * time.Second):
		r.log.Disarm()
	}
	done := make(chan struct{})
	go func() {
		for _, d := range h.Docs[1:] {
			if e := fl.Unmarshal([]byte(d.Text)); e != nil {
				okAll = false
			}
		}
		close(done)
	}()
	time.Sleep(2 * time.Millisecond) // let the back-to-back loads reach the channel while the loop is held
	if held {
		close(release)
	}
	select {
	case <-done:
	case <-time.After(3 * time.Second):
	}
	for i := 0; i < 15000 && int(atomic.LoadInt32(&consumed)) < len(h.Docs); i++ {
		time.Sleep(time.Millisecond)
	}
	nconsumed := int(atomic.LoadInt32(&consumed)) // before the reference loader below adds its own install
	last := h.Docs[len(h.Docs)-1]
	ff := newFileLoader(h.Fmt)
	var fresh config.ServerConfig
	if ff.Unmarshal([]byte(last.Text)) == nil {
		fresh = <-ff.Config()
	}
	fch := chanCfg{ch: make(chan config.ServerConfig, 1)}
	freshL := r.newLoader(fch)
	fch.ch <- fresh
	freshL.BlockUntilLoaded()
	rec.Emit(E{"e": "burst", "held": held, "ok": okAll, "consumed": nconsumed, "docs": len(h.Docs)})
	for _, a := range h.Probes {
		ok1, k1, u1 := probeLoader(long, a, h.Users)
		ok2, k2, u2 := probeLoader(freshL, a, h.Users)
		rec.Emit(E{"e": "probe", "i": len(h.Docs), "addr": a, "ok": ok1, "key": string(k1), "users": u1, "fok": ok2, "fkey": string(k2), "fusers": u2})
	}
}

// runWatched: histories played through the file system - the configuration file is rewritten in place and the real
// fsnotify.Watcher (cmds/server/loader/fsnotify, one-second debounce) reloads it into a real Loader built with
// loader.NewLocalConfig, as cmds/server/main.go wires them. The histories run side by side (each in its own directory);
// after every rewrite the Loader is probed until it answers like a fresh Loader built from the last good document
// (bounded wait) - what it answers then is recorded and judged by Trace_Reload like every other probe.
func (r *refRun) runWatched(hs []*RHist, tmp string) {
	if len(hs) == 0 {
		return
	}
	var wg sync.WaitGroup
	evs := make([][]E, len(hs))
	sem := make(chan struct{}, 16)
	for k, h := range hs {
		wg.Add(1)
		go func(k int, h *RHist) {
			defer wg.Done()
			sem <- struct{}{}
			defer func() { <-sem }()
			evs[k] = r.watchOne(h, filepath.Join(tmp, fmt.Sprintf("w%d", k)))
		}(k, h)
	}
	wg.Wait()
	for k := range hs {
		for _, e := range evs[k] {
			r.rec.Emit(e)
		}
	}
}

func (r *refRun) watchOne(h *RHist, dir string) []E {
	out := []E{{"e": "reset", "sc": h.ID}}
	os.MkdirAll(dir, 0o755)
	path := filepath.Join(dir, "tacquito.yaml")
	os.WriteFile(path, []byte(h.Docs[0].Text), 0o644)
	ctx, cancel := context.WithCancel(context.Background())
	defer cancel()
	lg := NewCapLog(nil, false)
	// what the watcher and the loader ask their logger to emit is searched for the shared secrets of the documents (C18)
	var omu sync.Mutex
	lg.Tokens = h.Secrets
	lg.Gate = func(kind, msg string) {
		if hs := lg.hits(msg); len(hs) > 0 {
			omu.Lock()
			out = append(out, E{"e": "wlog", "k": kind, "hits": hb(hs), "msg": msg})
			omu.Unlock()
		}
	}
	acc, _ := local.New(lg, local.SetLogSink(r.sink))
	w := fsnotify.New(ctx, yaml.New(), lg)
	long, err := loader.NewLocalConfig(ctx, path, w,
		loader.SetLoggerProvider(lg), loader.SetKeychainProvider(secret.New()), loader.SetConfigProvider(config.New()),
		loader.SetAuthorizerProvider(stringy.New(lg)), loader.RegisterSecretProviderType(config.PREFIX, prefix.New(lg)),
		loader.RegisterHandlerType(config.START, handlers.NewStart(lg)), loader.RegisterAuthenticator(config.BCRYPT, bcrypt.New(lg, okSecret{})),
		loader.RegisterAccounter(config.FILE, acc))
	good0 := h.Docs[0].Parses && h.Docs[0].MinOK
	// a refusal that comes from the machine, not from the document (inotify instances are a per-user resource and the
	// repository's watcher never closes its own): recorded, not judged
	envfail := err != nil && (strings.Contains(err.Error(), "too many open files") || strings.Contains(err.Error(), "failed to create file watcher") ||
		strings.Contains(err.Error(), "failed watching config") || strings.Contains(err.Error(), "no space left"))
	omu.Lock()
	out = append(out, E{"e": "wstart", "ok": err == nil, "good": good0 && !envfail, "env": envfail})
	omu.Unlock()
	if err != nil {
		return out
	}
	long.BlockUntilLoaded()
	lastGood := h.Docs[0].Text
	freshFor := func(text string) *loader.Loader {
		ff := newFileLoader("yaml")
		var fresh config.ServerConfig
		if ff.Unmarshal([]byte(text)) == nil {
			fresh = <-ff.Config()
		}
		fch := chanCfg{ch: make(chan config.ServerConfig, 1)}
		fl := r.newLoader(fch)
		fch.ch <- fresh
		fl.BlockUntilLoaded()
		return fl
	}
	same := func(a, b *loader.Loader) bool {
		for _, p := range h.Probes {
			ok1, k1, u1 := probeLoader(a, p, h.Users)
			ok2, k2, u2 := probeLoader(b, p, h.Users)
			if ok1 != ok2 || string(k1) != string(k2) || fmt.Sprint(u1) != fmt.Sprint(u2) {
				return false
			}
		}
		return true
	}
	for i, d := range h.Docs[1:] {
		if i%2 == 1 {
			// other files of the directory change too (an editor's swap file, a neighbour)
			os.WriteFile(filepath.Join(dir, ".tacquito.yaml.swp"), []byte("x"), 0o644)
			os.WriteFile(filepath.Join(dir, "notes.txt"), []byte("y"), 0o644)
		}
		os.WriteFile(path, []byte(d.Text), 0o644)
		good := d.Parses && d.MinOK
		if good {
			lastGood = d.Text
		}
		fl := freshFor(lastGood)
		if good {
			// the watcher reloads within its debounce period: wait (bounded) until the Loader answers like the fresh one
			for k := 0; k < 300 && !same(long, fl); k++ {
				time.Sleep(100 * time.Millisecond)
			}
		} else {
			time.Sleep(2500 * time.Millisecond) // a bad document: past the debounce period nothing must have changed
		}
		for _, a := range h.Probes {
			ok1, k1, u1 := probeLoader(long, a, h.Users)
			ok2, k2, u2 := probeLoader(fl, a, h.Users)
			omu.Lock()
			out = append(out, E{"e": "probe", "i": i + 2, "addr": a, "ok": ok1, "key": string(k1), "users": u1, "fok": ok2, "fkey": string(k2), "fusers": u2, "watch": true})
			omu.Unlock()
		}
	}
	return out
}
