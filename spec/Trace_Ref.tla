------------------------------ MODULE Trace_Ref ------------------------------
(* Trace validation for the REFERENCE server: real loader, prefix provider, Start    *)
(* handler, ASCII/PAP handlers, bcrypt, stringy, local accounter, driven over        *)
(* scripted connections (harness/ref.go).  One behaviour = many scenarios, each      *)
(* "reset" carrying the abstract configuration the real one was rendered from.       *)
(*                                                                                   *)
(* observation layer (verdicts, "PV" lines):                                         *)
(*   C06 reply mirrors request        C07 one request - one reply                    *)
(*   C09 transcript(session | interleaved) = transcript(session | alone)             *)
(*   C10 PASS <=> MayPass (Handlers.tla, transcript based)                           *)
(*   C11 authorization verdict = Authz oracle        C12 accounting records          *)
(*   C13 admission = Admission!Admit   C14 no panic  C18 no secret in a log call     *)
(* model layer ("DIV" lines): reply = Handlers!Handle(cfg, scope, continuation, req) *)
EXTENDS Integers, Sequences, SequencesExt, FiniteSets, TLC, Json, IOUtils, Handlers, Crypt, Authz, Span

Tr == ndJsonDeserialize(IOEnv.TRACE_FILE)
N == Len(Tr)

\* de-obfuscation tables (one MD5 chain per obfuscated packet, computed once; see Trace_Server)
FeedIdx == {i \in 1..N : Tr[i].e = "feed"}
WrIdx == {i \in 1..N : Tr[i].e = "wr"}
Ver(h) == h.maj * 16 + h.min
WrLenOK(b) == Len(b) >= 12 /\ Len4Small(SubSeq(b, 9, 12)) /\ Len4Val(SubSeq(b, 9, 12)) = Len(b) - 12
ClrTab0 == TLCEval([i \in FeedIdx |-> LET h == DecHeader(Tr[i].h).v IN FromWire(Tr[i].sk, h.sid, Ver(h), h.seq, h.fl, Tr[i].b)])
WClrTab0 == TLCEval([i \in WrIdx |-> LET b == Tr[i].b IN
              IF WrLenOK(b) THEN LET w == DecHeader(Take(b, 12)).v IN FromWire(Tr[i].sk, w.sid, Ver(w), w.seq, w.fl, Drop(b, 12))
              ELSE <<>>])
ASSUME TLCSet(11, ClrTab0) /\ TLCSet(12, WClrTab0)
ClrTab == TLCGet(11)
WClrTab == TLCGet(12)

VARIABLES l, sc, cfg, conns, ms, div, o
vars == << l, sc, cfg, conns, ms, div, o >>

Get(f, k, d) == IF k \in DOMAIN f THEN f[k] ELSE d
Put(f, k, v) == [x \in DOMAIN f \cup {k} |-> IF x = k THEN v ELSE f[x]]
Tags(conds) == { c[2] : c \in { x \in conds : x[1] } }

NoCfg == [secrets |-> <<>>, users |-> <<>>, deny |-> <<>>, allow |-> <<>>]
NoReq == [c |-> -1, sid |-> <<>>, hdr |-> [maj |-> 0, min |-> 0, ty |-> 0, seq |-> 0, fl |-> 0, sid |-> <<>>, len |-> <<>>], b |-> <<>>, l |-> 0,
          ck |-> <<>>, cb |-> <<>>, wire |-> <<>>, h12 |-> <<>>]
ObsInit == [req |-> NoReq, pend |-> FALSE, wr |-> 0, inv |-> 0, sinks |-> <<>>,
            t |-> << >>, reps |-> << >>, nfeed |-> << >>, iso |-> {}, bad |-> {}, noisy |-> FALSE, overlap |-> FALSE, acctpend |-> FALSE, acctdone |-> FALSE, acctb |-> <<>>,
            ofeeds |-> <<>>, osinks |-> <<>>, oack |-> {}, ojudged |-> FALSE, pw |-> <<>>, plain |-> {},
            spx |-> <<>>, spcur |-> FALSE, spn |-> 0]
EmptyFn == [x \in {} |-> 0]

\* the secret configuration a connection is bound to (0 = refused), per the Admission oracle
ScopeIdx(c) == Get(conns, c, [k |-> 0]).k
ScopeName(c) == cfg.secrets[ScopeIdx(c)].name
\* scope names are TLA+ strings in the configuration; the trace also carries them as octets
ScopeBytes(name) == LET ks == { k \in 1..Len(cfg.secrets) : cfg.secrets[k].name = name } IN cfg.secrets[CHOOSE k \in ks : TRUE].nameb

\* ---- C19 on the reference server: the connection's secret is the key of the secret configuration the ADMISSION ORACLE
\* binds the address to (not the key the server happens to use). A request the client obfuscated with that key and that
\* is well-formed must not be answered by the reader's key-mismatch error packet; a request obfuscated with another key
\* whose octets, read under the connection's secret, are inconsistent under every layout of the type must not reach a handler.
CfgKeyOf(c) == LET a == conns[c].addr  k == Admit(cfg, a) IN IF k > 0 /\ ~AdmitAmbiguous(cfg, a) THEN cfg.secrets[k].key ELSE <<>>
C19ReaderErr(r) ==           \* the reader answered request r itself (no handler ran)
   LET key == CfgKeyOf(r.c) IN
   key # <<>> /\ ~ClearFlag(r.hdr.fl) /\ r.ck = key /\ WellFormedRequest(r.hdr.ty, r.cb)
C19Delivered(r) ==           \* request r reached a handler
   LET key == CfgKeyOf(r.c) IN
   key # <<>> /\ ~ClearFlag(r.hdr.fl) /\ r.ck # key
   /\ LenMismatch(r.hdr.ty, FromWire(key, r.hdr.sid, Ver(r.hdr), r.hdr.seq, r.hdr.fl, r.wire))

\* ---- span scopes (model layer only, Span.tla): what the mirror destination must have received ----
SpanOf(c) == IF ScopeIdx(c) = 0 THEN NoSpan
             ELSE LET s == cfg.secrets[ScopeIdx(c)] IN IF "span" \in DOMAIN s THEN s.span ELSE NoSpan
SpanInv(on, e) ==           \* the scope handler of a mirroring span scope was invoked: one dial
   IF e.hid = 0 /\ o.pend /\ ~o.overlap /\ SpanMirrors(SpanOf(e.c))
   THEN [on EXCEPT !.spcur = TRUE, !.spx = Append(@, [sp |-> SpanOf(e.c), ty |-> o.req.hdr.ty, hdr |-> o.req.h12, b |-> e.b, reps |-> <<>>])]
   ELSE on
SpanWr(on, e, clr) ==       \* a reply written by the handlers while that request is being handled
   IF o.spcur /\ o.inv >= 1 /\ Len(e.b) >= 12 /\ Len(o.spx) > 0
   THEN [on EXCEPT !.spx[Len(o.spx)].reps = Append(@, << Take(e.b, 12), clr >>)]
   ELSE on
SpanMirOK(e) == /\ e.k \in 1..Len(o.spx)
                /\ LET x == o.spx[e.k] IN e.b = MirrorStream(x.sp, x.ty, x.hdr, x.b, x.reps)

ErrStatus(ty) == CASE ty = 1 -> 7 [] ty = 2 -> 17 [] ty = 3 -> 2 [] OTHER -> -1

\* ---- authorization (C11): the observed verdict against the Authz oracle ------
AuthzViolation(c, scope, b, rv) ==
   LET q == Dec("AuthorRequest", b) IN
   IF ~(q.ok /\ Valid("AuthorRequest", q.v)) THEN Granted(rv)        \* undecodable requests are never granted
   ELSE LET known == HasUser(c, scope, q.v.user)
            u == IF known THEN TheUser(c, scope, q.v.user) ELSE [commands |-> <<>>, services |-> <<>>, groups |-> <<>>]
        IN AuthzJudge(known, u, SScopeEq \o ScopeBytes(scope), q.v, rv)

\* ---- what a reply must look like, given the request (C06) -----------------
Mirrors(r, w) == /\ w.sid = r.sid /\ w.ty = r.ty /\ w.maj = r.maj /\ w.min = r.min /\ w.fl = r.fl
                 /\ w.seq = r.seq + 1 /\ w.seq \in 1..255

\* ---- accounting (C12) ------------------------------------------------------
\* contradictory flags (RFC 8907 section 7.2: start together with stop, stop together with watchdog)
AcctContradictory(f) == (HasBit(f, 2) /\ HasBit(f, 4)) \/ (HasBit(f, 4) /\ HasBit(f, 8))
AcctMustError(scope, b) ==
   \/ ~Dec("AcctRequest", b).ok
   \/ AcctContradictory(Dec("AcctRequest", b).v.flags)
   \/ ~Valid("AcctRequest", Dec("AcctRequest", b).v)
   \/ ~HasUser(cfg, scope, Dec("AcctRequest", b).v.user)
   \/ ~EffAcct(TheUser(cfg, scope, Dec("AcctRequest", b).v.user))
   \/ AcctKind(TheUser(cfg, scope, Dec("AcctRequest", b).v.user)) = "stderr"      \* accounter type without a registered factory
RecordMatches(d, b) == LET q == Dec("AcctRequest", b) IN
   q.ok /\ d.ok /\ d.dec.flags = q.v.flags /\ d.dec.method = q.v.method /\ d.dec.priv = q.v.priv /\ d.dec.atype = q.v.atype
   /\ d.dec.service = q.v.service /\ d.dec.user = q.v.user /\ d.dec.port = q.v.port /\ d.dec.raddr = q.v.raddr /\ d.dec.args = q.v.args

\* ---- one reply observed -----------------------------------------------------
ObsWr(e) ==
   LET r == o.req
       b == e.b
       lenok == WrLenOK(b)
       w == IF Len(b) >= 12 THEN DecHeader(Take(b, 12)).v ELSE r.hdr
       clr == WClrTab[l]
       key == << r.c, r.sid >>
       scope == IF ScopeIdx(r.c) > 0 THEN ScopeName(r.c) ELSE ""
       t == Get(o.t, key, T0)
       \* a session in the middle of an authentication exchange is answered by its continuation with an
       \* authentication reply, whatever packet type the request header carries
       kind == IF t.stage # "idle" THEN "AuthenReply" ELSE IF w.ty \in {1, 2, 3} THEN ReplyKind(w.ty) ELSE "AuthenReply"
       d == IF lenok THEN Dec(kind, clr) ELSE Bad
       status == IF d.ok THEN d.v.status ELSE -1
       amb == Ambiguous(r.b)
       may == ScopeIdx(r.c) > 0 /\ MayPass(cfg, scope, t, r.hdr, r.b)
       new == Tags({
          << ~o.pend, "C07" >>,
          << o.pend /\ ~(lenok /\ d.ok /\ Mirrors(r.hdr, w)), "C06" >>,
          \* the reply is obfuscated with the connection's secret: the key of the secret configuration the address is bound to
          << o.pend /\ lenok /\ ~ClearFlag(w.fl) /\ CfgKeyOf(r.c) # <<>> /\ e.sk # CfgKeyOf(r.c), "C03" >>,
          << o.pend /\ o.wr >= 1, "C07" >>,
          \* C10 soundness and completeness (requests that parse under two layouts are left open)
          << o.pend /\ kind = "AuthenReply" /\ status = 1 /\ ~amb /\ ~may, "C10" >>,
          << o.pend /\ kind = "AuthenReply" /\ d.ok /\ ~amb /\ may /\ status # 1, "C10" >>,
          \* C12
          \* an acknowledged record has reached the sink exactly once before the reply (log-backed accounter); the syslog
          \* accounter's record travels over a socket and is matched when it arrives (acctpend)
          << o.pend /\ kind = "AcctReply" /\ status = 1 /\ Len(o.sinks) > 1, "C12" >>,
          << o.pend /\ kind = "AcctReply" /\ status = 1 /\ Len(o.sinks) = 1 /\ ~RecordMatches(o.sinks[1], r.b), "C12" >>,
          << o.pend /\ r.hdr.ty = 3 /\ t.stage = "idle" /\ d.ok /\ ScopeIdx(r.c) > 0 /\ AcctMustError(scope, r.b) /\ status # 2, "C12" >>,
          \* C11
          << o.pend /\ r.hdr.ty = 2 /\ t.stage = "idle" /\ d.ok /\ ScopeIdx(r.c) > 0
             /\ AuthzViolation(cfg, scope, r.b, d.v), "C11" >> })
   IN IF o.overlap
      THEN [o EXCEPT !.wr = @ + 1, !.reps = Put(@, << e.c, w.sid >>, Append(Get(@, << e.c, w.sid >>, <<>>), b)),
                     \* accounting requests acknowledged while requests of several connections are in flight (judged at the end)
                     !.oack = IF ~o.ojudged /\ lenok /\ w.ty = 3 /\ Dec("AcctReply", clr).ok /\ Dec("AcctReply", clr).v.status = 1
                              THEN @ \cup { << e.c, w.sid >> } ELSE @]
      ELSE IF o.pend /\ o.inv = 0
      THEN \* written by the reader, not by a handler: the key-mismatch error packet (its form is judged by C19 in the
           \* server family; here: it must not answer a request that is well-formed under the connection's secret)
           [o EXCEPT !.wr = @ + 1, !.reps = Put(@, key, Append(Get(@, key, <<>>), b)),
                     \* ... (C03: a request obfuscated with the connection's secret was not recovered by the server)
                     !.bad = @ \cup Tags({ << C19ReaderErr(r), "C19" >>, << C19ReaderErr(r), "C03" >>,
                                            \* the error packet itself is a packet the server wrote: read under the connection's secret
                                            \* it must be a reply body of the type (C03: cleartext XOR pad), with the ERROR status (C19)
                                            << lenok /\ w.ty \in {1, 2, 3} /\ ~Dec(ReplyKind(w.ty), clr).ok, "C03" >>,
                                            << lenok /\ w.ty \in {1, 2, 3} /\ ~(Dec(ReplyKind(w.ty), clr).ok /\ Dec(ReplyKind(w.ty), clr).v.status = ErrStatus(w.ty)), "C19" >> })]
      ELSE [o EXCEPT !.wr = @ + 1, !.bad = @ \cup new,
                !.acctpend = (o.pend /\ kind = "AcctReply" /\ status = 1 /\ Len(o.sinks) = 0),
                !.acctb = r.b,
                !.t = IF d.ok /\ kind = "AuthenReply" THEN Put(@, key, TNext(t, r.hdr, r.b, status)) ELSE @,
                !.reps = Put(@, key, Append(Get(@, key, <<>>), b))]

\* model layer: the reply is the one the reference handlers produce
ModelWrOK(e) ==
   LET r == o.req
       key == << r.c, r.sid >>
       w == DecHeader(Take(e.b, 12)).v
       clr == WClrTab[l]
       kind == IF Get(ms, key, NoH).k # "none" THEN "AuthenReply" ELSE ReplyKind(w.ty)
       d == Dec(kind, clr)
       x == Handle(cfg, ScopeName(r.c), Get(ms, key, NoH), r.hdr, r.b)
   IN /\ WrLenOK(e.b) /\ w.ty \in {1, 2, 3} /\ d.ok
      /\ (x.anyst \/ d.v.status = x.st)
      /\ (kind = "AuthenReply" => (x.anyst \/ d.v.flags = x.fl))
      /\ (x.anymsg \/ d.v.msg = x.msg)
      /\ (kind # "AuthorReply" => d.v.data = <<>>)
      /\ (IF x.sink /\ x.via # "syslog" THEN Len(o.sinks) = 1 ELSE Len(o.sinks) = 0)
ModelNext(e) == LET r == o.req IN Handle(cfg, ScopeName(r.c), Get(ms, << r.c, r.sid >>, NoH), r.hdr, r.b).nx

\* ---- request settled (server waits for more input or closed the connection) ----
Settle(closing) ==
   IF ~o.pend THEN o ELSE
   LET r == o.req
       new == Tags({ << o.inv >= 1 /\ r.hdr.seq # 255 /\ o.wr # 1, "C07" >>,
                     << o.inv >= 1 /\ r.hdr.seq = 255 /\ o.wr # 0, "C07" >>,
                     << o.inv = 0 /\ ~closing, "C07" >>,
                     << o.inv = 0 /\ o.wr > 1, "C07" >> })
   IN [o EXCEPT !.pend = FALSE, !.bad = @ \cup new]

\* ---- C09: every session re-run alone gives the same replies -----------------
IsoTags == Tags({ << \E p \in o.iso :
                        LET a == Get(o.reps, << p.of, p.sid >>, <<>>)  b == Get(o.reps, << p.c, p.sid >>, <<>>)
                            na == Get(o.nfeed, << p.of, p.sid >>, 0)   nb == Get(o.nfeed, << p.c, p.sid >>, 0)
                        IN IF na = nb THEN a # b ELSE ~(IsPrefix(a, b) \/ IsPrefix(b, a)), "C09" >> })

\* ---- C12 with requests of several connections in flight together: acknowledged requests and sink records are
\* compared as bags once every connection has closed (a record may be written while another handler is still inside
\* the sink, so "before the reply" can only be judged per request in the sequential scenarios)
AcctProj(b) == LET q == Dec("AcctRequest", b) IN
   IF q.ok THEN << q.v.flags, q.v.method, q.v.priv, q.v.atype, q.v.service, q.v.user, q.v.port, q.v.raddr, q.v.args >> ELSE << >>
OverlapAcctTags ==
   LET F == { i \in 1..Len(o.ofeeds) : o.ofeeds[i].ty = 3 /\ Dec("AcctRequest", o.ofeeds[i].b).ok /\ ScopeIdx(o.ofeeds[i].c) > 0 }
       Key(i) == << o.ofeeds[i].c, o.ofeeds[i].sid >>
       Once(i) == Get(o.nfeed, Key(i), 0) = 1
       File(i) == LET u == Dec("AcctRequest", o.ofeeds[i].b).v.user  sn == ScopeName(o.ofeeds[i].c) IN
                  HasUser(cfg, sn, u) /\ EffAcct(TheUser(cfg, sn, u)) /\ AcctKind(TheUser(cfg, sn, u)) # "syslog"
       A == { i \in F : Once(i) /\ File(i) /\ Key(i) \in o.oack }
       S == 1..Len(o.osinks)
       M(i) == { j \in S : RecordMatches(o.osinks[j], o.ofeeds[i].b) }
       SameA(i) == { k \in A : AcctProj(o.ofeeds[k].b) = AcctProj(o.ofeeds[i].b) }
       SameF(i) == { k \in F : AcctProj(o.ofeeds[k].b) = AcctProj(o.ofeeds[i].b) }
   IN Tags({ << \E i \in A : Cardinality(M(i)) < Cardinality(SameA(i)), "C12" >>,                      \* acknowledged, but its record is not in the sink
             << \E i \in A : (\A k \in SameF(i) : Once(k)) /\ Cardinality(M(i)) > Cardinality(SameF(i)), "C12" >>,   \* more records than requests
             << \E j \in S : \A i \in F : ~RecordMatches(o.osinks[j], o.ofeeds[i].b), "C12" >> })      \* a record no request asked for

\* ---- C13: admission ----------------------------------------------------------
LookupTags(e, a) ==
   LET k == Admit(cfg, a) IN
   IF k > 0 /\ AdmitAmbiguous(cfg, a) THEN {}
   ELSE Tags({ << k = 0 /\ e.ok, "C13" >>,
               << k > 0 /\ ~e.ok, "C13" >>,
               << k > 0 /\ e.ok /\ e.key # cfg.secrets[k].key, "C13" >> })

Init == l = 1 /\ sc = "" /\ cfg = NoCfg /\ conns = EmptyFn /\ ms = EmptyFn /\ div = FALSE /\ o = ObsInit

Report(new, e) == IF new = {} THEN TRUE ELSE PrintT(<< "PV", new, sc, l, e.e >>)
\* once an unframed octet stream has been fed, requests and replies can no longer be paired from the outside:
\* only crash-freedom (C14) and log hygiene (C18) are judged for the rest of the scenario
Quiet(on) == IF o.noisy THEN [on EXCEPT !.bad = o.bad \cup (@ \cap {"C14", "C18"})] ELSE on

Next ==
   /\ l <= N /\ l' = l + 1
   /\ LET e == Tr[l] IN
      CASE e.e = "reset" ->
             /\ sc' = e.sc /\ cfg' = e.cfg /\ conns' = EmptyFn /\ ms' = EmptyFn /\ div' = FALSE /\ o' = ObsInit
        [] e.e = "open" ->
             /\ conns' = Put(conns, e.c, [addr |-> e.addr, k |-> Admit(cfg, e.addr), closed |-> FALSE,
                                          names |-> IF "names" \in DOMAIN e THEN e.names ELSE <<>>])
             /\ o' = [o EXCEPT !.iso = IF "iso" \in DOMAIN e THEN @ \cup {[c |-> e.c, of |-> e.of, sid |-> e.sid]} ELSE @]
             /\ UNCHANGED << sc, cfg, ms, div >>
        [] e.e = "lookup" ->
             \* configurations with a DNS secret provider are growth beyond the listed properties: the lookup is compared
             \* with Admission!AdmitNamed on the names the resolver gave (divergence only)
             /\ LET new == IF HasDns(cfg) THEN {} ELSE LookupTags(e, conns[e.c].addr) IN o' = [o EXCEPT !.bad = @ \cup new] /\ Report(new \ o.bad, e)
             /\ (IF ~HasDns(cfg) THEN TRUE
                 ELSE LET k == AdmitNamed(cfg, conns[e.c].addr, conns[e.c].names) IN
                      IF (k = 0 /\ ~e.ok) \/ (k > 0 /\ e.ok /\ e.key = cfg.secrets[k].key) THEN TRUE
                      ELSE PrintT(<< "DIV", sc, l, "dns: lookup differs from Admission!AdmitNamed" >>))
             \* from here on the connection is judged against the configuration whose key the server really uses
             \* (in the unambiguous case that is the oracle's, or the lookup above is already a violation)
             /\ LET ks == { k \in 1..Len(cfg.secrets) : cfg.secrets[k].key = e.key } IN
                conns' = [conns EXCEPT ![e.c].k = IF e.ok /\ ks # {} THEN CHOOSE k \in ks : \A j \in ks : k <= j ELSE 0]
             /\ UNCHANGED << sc, cfg, ms, div >>
        [] e.e = "feed" ->
             /\ (IF o.acctpend /\ ~o.noisy THEN PrintT(<< "PV", {"C12"}, sc, l, "norecord" >>) ELSE TRUE)
             /\ LET h == DecHeader(e.h).v  key == << e.c, h.sid >> IN
                o' = [o EXCEPT !.acctpend = FALSE, !.acctdone = FALSE, !.req = [c |-> e.c, sid |-> h.sid, hdr |-> h, b |-> ClrTab[l], l |-> l, ck |-> e.ck, cb |-> e.cb, wire |-> e.b, h12 |-> e.h],
                               !.spcur = FALSE,
                               !.pend = TRUE, !.wr = 0, !.inv = 0, !.sinks = <<>>,
                               \* the password this request presents, decided on the transcript as it stands when the request arrives
                               \* (a log call made after the reply was written still belongs to this request)
                               !.pw = IF ScopeIdx(e.c) > 0 THEN PwOfReq(Get(o.t, key, T0), h, ClrTab[l]) ELSE <<>>,
                               \* fields of the same login the server logs as what they are (user name, port, remote address)
                               !.plain = IF ScopeIdx(e.c) = 0 THEN {}
                                         ELSE IF Get(o.t, key, T0).stage = "asked_pass" THEN { Get(o.t, key, T0).user }
                                         ELSE IF DecAuthenStart(ClrTab[l]).ok
                                              THEN { DecAuthenStart(ClrTab[l]).v.user, DecAuthenStart(ClrTab[l]).v.port, DecAuthenStart(ClrTab[l]).v.raddr }
                                              ELSE {},
                               !.ofeeds = IF o.overlap /\ ~o.ojudged THEN Append(@, [c |-> e.c, sid |-> h.sid, ty |-> h.ty, b |-> ClrTab[l]]) ELSE @,
                               !.nfeed = Put(@, key, Get(@, key, 0) + 1)]
             /\ UNCHANGED << sc, cfg, conns, ms, div >>
        [] e.e = "inv" ->
             /\ LET new == Tags({ << ~o.pend \/ o.inv >= 1, "C07" >>,
                                  << o.pend /\ ScopeIdx(e.c) = 0, "C13" >>,
                                  << o.pend /\ e.b # o.req.b, "C03" >>,
                                  << o.pend /\ C19Delivered(o.req), "C19" >>,
                                  \* what the handler is given is what the client obfuscated with the connection's secret
                                  << o.pend /\ ~ClearFlag(o.req.hdr.fl) /\ CfgKeyOf(o.req.c) # <<>> /\ o.req.ck = CfgKeyOf(o.req.c) /\ e.b # o.req.cb, "C03" >> })
                IN o' = SpanInv(Quiet([o EXCEPT !.inv = @ + 1, !.bad = @ \cup new]), e) /\ Report(Quiet([o EXCEPT !.bad = @ \cup new]).bad \ o.bad, e)
             /\ UNCHANGED << sc, cfg, conns, ms, div >>
        [] e.e = "overlap" ->
             \* requests of several connections are in flight together: replies are only collected per (connection, session)
             \* and compared with the isolated re-runs at the end (C09); crash-freedom and log hygiene stay judged
             /\ o' = [o EXCEPT !.noisy = TRUE, !.overlap = TRUE]
             /\ UNCHANGED << sc, cfg, conns, ms, div >>
        [] e.e = "g" ->
             \* every connection of the scenario has closed (the isolated re-runs of C09 follow)
             /\ LET new == IF o.overlap /\ ~o.ojudged /\ e.at = "end" THEN OverlapAcctTags ELSE {}
                IN o' = [o EXCEPT !.bad = @ \cup new, !.ojudged = @ \/ e.at = "end"] /\ Report(new \ o.bad, e)
             /\ UNCHANGED << sc, cfg, conns, ms, div >>
        [] e.e = "feedraw" ->
             /\ o' = [o EXCEPT !.noisy = TRUE, !.pend = FALSE]
             /\ UNCHANGED << sc, cfg, conns, ms, div >>
        [] e.e = "sink" ->
             \* log-backed accounter: the record is written synchronously, inside the request; syslog accounter: the record
             \* arrives over a socket after the reply - matched when it arrives (an error reply may also have been preceded
             \* by a record: the property only constrains acknowledged ones)
             /\ LET d == [ok |-> e.ok, dec |-> e.dec]
                    sys == e.via = "syslog"
                    late == sys /\ o.acctpend
                    new == Tags({ << late /\ ~RecordMatches(d, o.acctb), "C12" >>,
                                  << sys /\ o.acctdone, "C12" >>,                                \* a second record for an acknowledged request
                                  << ~sys /\ ~o.pend /\ ~o.noisy, "C12" >> })                    \* a record nobody asked for
                IN /\ o' = [o EXCEPT !.osinks = IF ~sys /\ o.overlap /\ ~o.ojudged THEN Append(@, d) ELSE @,
                                     !.sinks = IF sys THEN @ ELSE Append(@, d), !.acctpend = IF late THEN FALSE ELSE @,
                                     !.acctdone = IF late THEN TRUE ELSE @, !.bad = @ \cup new]
                   /\ Report(new \ o.bad, e)
             /\ UNCHANGED << sc, cfg, conns, ms, div >>
        [] e.e = "wr" ->
             /\ LET on0 == ObsWr(e)
                    on == IF Admit(cfg, conns[e.c].addr) = 0
                          THEN [on0 EXCEPT !.bad = @ \cup {"C13"}] ELSE on0     \* bytes written on a connection that must be refused
                IN o' = SpanWr(Quiet(on), e, WClrTab[l]) /\ Report(Quiet(on).bad \ o.bad, e)
             /\ IF div \/ o.noisy \/ ~o.pend \/ o.inv = 0 \/ ScopeIdx(o.req.c) = 0
                THEN UNCHANGED << ms, div >>
                ELSE IF Len(e.b) >= 12 /\ ModelWrOK(e)
                     THEN ms' = Put(ms, << o.req.c, o.req.sid >>, ModelNext(e)) /\ div' = FALSE
                     ELSE div' = TRUE /\ ms' = ms /\ PrintT(<< "DIV", sc, l, "reply differs from Handlers!Handle" >>)
             /\ UNCHANGED << sc, cfg, conns >>
        [] e.e = "rdblock" ->
             /\ LET on == Quiet(Settle(FALSE)) IN o' = on /\ Report(on.bad \ o.bad, e)
             /\ UNCHANGED << sc, cfg, conns, ms, div >>
        [] e.e = "cl" ->
             /\ LET on == Settle(TRUE)
                    new == Tags({ << ScopeIdx(e.c) = 0 /\ (Get(o.reps, << e.c >>, <<>>) # <<>>), "C13" >> })
                IN o' = Quiet(on) /\ Report(Quiet(on).bad \ o.bad, e)
             /\ conns' = [conns EXCEPT ![e.c].closed = TRUE]
             \* a closed connection forgets its sessions
             /\ ms' = [k \in {x \in DOMAIN ms : x[1] # e.c} |-> ms[k]]
             /\ UNCHANGED << sc, cfg, div >>
        [] e.e = "log" ->
             \* C18: while a request that carries a password is being handled no log call may show that password;
             \* the connection's shared secret may never be shown
             /\ LET shown == { e.hits[i] : i \in 1..Len(e.hits) }
                    pw == IF o.pend /\ ScopeIdx(o.req.c) > 0 THEN o.pw ELSE <<>>
                    keys == { cfg.secrets[k].key : k \in 1..Len(cfg.secrets) }
                    \* fields of the same login the server logs as what they are (user name, port, remote address): a client that
                    \* types its password at the user-name prompt has put those octets there itself - showing the user name
                    \* is not showing the password
                    plain == IF o.pend /\ ScopeIdx(o.req.c) > 0 THEN o.plain ELSE {}
                    new == Tags({ << pw # <<>> /\ pw \in shown /\ pw \notin plain, "C18" >>, << shown \cap keys # {}, "C18" >> })
                IN o' = [o EXCEPT !.bad = @ \cup new] /\ (IF new = {} THEN TRUE ELSE PrintT(<< "PV", new, sc, l, "log" >>))
             /\ UNCHANGED << sc, cfg, conns, ms, div >>
        [] e.e = "mir" ->
             \* the octets mirror connection number k (in the order of the dials) has received by the end of the scenario
             /\ o' = [o EXCEPT !.spn = @ + 1]
             /\ (IF o.noisy \/ SpanMirOK(e) THEN TRUE ELSE PrintT(<< "DIV", sc, l, "span mirror differs from Span!MirrorStream" >>))
             /\ UNCHANGED << sc, cfg, conns, ms, div >>
        [] e.e = "panic" ->
             /\ o' = [o EXCEPT !.bad = @ \cup {"C14"}] /\ PrintT(<< "PV", {"C14"}, sc, l, "panic" >>)
             /\ UNCHANGED << sc, cfg, conns, ms, div >>
        [] e.e = "end" ->
             /\ (IF o.acctpend /\ ~o.noisy THEN PrintT(<< "PV", {"C12"}, sc, l, "norecord" >>) ELSE TRUE)
             /\ LET new == IF o.noisy /\ ~o.overlap THEN {} ELSE IsoTags IN o' = [o EXCEPT !.bad = @ \cup new] /\ Report(new \ o.bad, e)
             /\ (IF o.noisy \/ o.spn = Len(o.spx) THEN TRUE ELSE PrintT(<< "DIV", sc, l, "span: number of mirror connections differs from the number of dials" >>))
             /\ UNCHANGED << sc, cfg, conns, ms, div >>
        [] OTHER -> UNCHANGED << sc, cfg, conns, ms, div, o >>

Spec == Init /\ [][Next]_vars
Final == TLCGet("stats").diameter - 1 = N \/ (PrintT(<< "SHORT", TLCGet("stats").diameter - 1, N >>) /\ FALSE)
=============================================================================
