------------------------------ MODULE Admission ------------------------------
(* Which connection is served, and with what (C13).  Stated from the README /       *)
(* property text: an address is refused if it lies in a deny prefix; refused if an  *)
(* allow list is configured and it lies in none of its prefixes; otherwise it is    *)
(* bound to the first secret configuration, in configuration order, one of whose    *)
(* prefixes contains it; none => refused.  Users exist only in their scopes.        *)
(* Addresses are octet sequences (4 or 16); an IPv4-mapped IPv6 address is the IPv4 *)
(* address.  Prefixes are [ip |-> octets, bits |-> n].                              *)
(* Anchors: loader.go updates()/get()/build(), prefix_filter.go, prefix/provider.go *)
EXTENDS Integers, Sequences, FiniteSets

IsMapped(a) == Len(a) = 16 /\ (\A i \in 1..10 : a[i] = 0) /\ a[11] = 255 /\ a[12] = 255
Norm(a) == IF IsMapped(a) THEN SubSeq(a, 13, 16) ELSE a

Pow2(n) == CASE n = 0 -> 1 [] n = 1 -> 2 [] n = 2 -> 4 [] n = 3 -> 8 [] n = 4 -> 16 [] n = 5 -> 32 [] n = 6 -> 64 [] n = 7 -> 128 [] n = 8 -> 256

\* prefix p contains address a (same family after normalisation, first p.bits bits equal)
PfxContains(p, a) ==
   LET x == Norm(a)  q == Norm(p.ip)
       bits == IF IsMapped(p.ip) THEN p.bits - 96 ELSE p.bits
       full == bits \div 8  r == bits % 8
   IN /\ Len(x) = Len(q) /\ bits >= 0 /\ bits <= 8 * Len(q)
      /\ \A i \in 1..full : x[i] = q[i]
      /\ (r > 0 => (x[full + 1] \div Pow2(8 - r)) = (q[full + 1] \div Pow2(8 - r)))

InAny(ps, a) == \E i \in 1..Len(ps) : PfxContains(ps[i], a)

SeqRange(s) == { s[i] : i \in 1..Len(s) }
\* user entries (indices into cfg.users) that belong to a scope
ScopeUserIdx(cfg, scope) == { i \in 1..Len(cfg.users) : scope \in SeqRange(cfg.users[i].scopes) }

\* a secret configuration can serve only if it has prefixes, a known handler type and at least one user (implementation note:
\* build() drops a scope none of whose users could be built; the property text leaves that case open)
Servable(cfg, k) == Len(cfg.secrets[k].prefixes) > 0 /\ ~cfg.secrets[k].nohandler

\* index of the secret configuration that serves address a, or 0 when the connection is refused
Admit(cfg, a) ==
   IF InAny(cfg.deny, a) THEN 0
   ELSE IF Len(cfg.allow) > 0 /\ ~InAny(cfg.allow, a) THEN 0
   ELSE LET cand == { k \in 1..Len(cfg.secrets) : InAny(cfg.secrets[k].prefixes, a) } IN
        IF cand = {} THEN 0 ELSE CHOOSE k \in cand : \A j \in cand : k <= j
\* ---- growth beyond the listed properties: the DNS secret provider (config/secret/dns) as the code has it ----
\* A secret configuration of kind "dns" serves a connection when one of the names the resolver returns for the remote
\* address is among its hosts (octet-wise equal, no normalisation of case or trailing dots); configurations are tried in
\* order like prefix ones. names = what the resolver answered (an observation of the environment, carried in the trace).
IsDns(s) == "kind" \in DOMAIN s /\ s.kind = "dns"
HasDns(cfg) == \E k \in 1..Len(cfg.secrets) : IsDns(cfg.secrets[k])
AdmitNamed(cfg, a, names) ==
   IF InAny(cfg.deny, a) THEN 0
   ELSE IF Len(cfg.allow) > 0 /\ ~InAny(cfg.allow, a) THEN 0
   ELSE LET cand == { k \in 1..Len(cfg.secrets) :
                        IF IsDns(cfg.secrets[k]) THEN SeqRange(names) \cap SeqRange(cfg.secrets[k].hostsb) # {}
                        ELSE InAny(cfg.secrets[k].prefixes, a) } IN
        IF cand = {} THEN 0 ELSE CHOOSE k \in cand : \A j \in cand : k <= j
\* the case the property leaves open: the first matching configuration has no user (so no provider is built for it)
AdmitAmbiguous(cfg, a) == LET k == Admit(cfg, a) IN k > 0 /\ (ScopeUserIdx(cfg, cfg.secrets[k].name) = {} \/ ~Servable(cfg, k))
=============================================================================
