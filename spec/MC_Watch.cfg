SPECIFICATION WSpec
CONSTANTS
  Docs = {"a", "b", "bad", "thin"}
  Parses = {"a", "b", "thin"}
  MinOK = {"a", "b", "bad"}
  MaxLoads = 4
  ChanCap = 1
INVARIANTS WatchedEqualsFresh BadFileKeepsLastGood PipelineExact
PROPERTY EventuallyCaughtUp
CHECK_DEADLOCK FALSE
