------------------------------ MODULE Lifecycle ------------------------------
(* Serve's accept loop, the connection goroutines, the wait group, cancellation and   *)
(* read deadlines (server.go Serve / serve / handle, sessions.go waitGroup).          *)
(* Time is logical: a read deadline is a pending "Fire" that the environment may      *)
(* deliver once the connection is blocked in a read with a deadline armed.            *)
(*                                                                                    *)
(* Defects (what a mistaken implementation would do) are switches, used to show that  *)
(* each property is not vacuous:                                                      *)
(*   "addInGoroutine"  the wait group is joined by the connection goroutine itself    *)
(*   "noDeadline"      no read deadline is armed                                      *)
(*   "noWait"          Serve does not wait for the connection goroutines              *)
(*   "closeErrNoWait"  Serve skips the wait when closing the listener reports an error *)
(*                     (it was already closed by the operator)                        *)
(*   "lookupDiesOnCancel" the secret provider no longer answers after cancellation    *)
(*                     (breaks the liveness property ShutdownCompletes)                *)
(*   "pollOnlyOnTimeout" the accept loop polls its context only after an Accept that   *)
(*                     timed out (breaks PollsContextBetweenAccepts)                   *)
(*   "serveOnAfterCancel" the connection loop goes on reading under a cancelled context *)
(*                     (breaks PollsContextBetweenReads)                               *)
(*   "peerNeverReads"  environment, not implementation: a peer that never reads its    *)
(*                     replies blocks the handler's write for ever (no write deadline  *)
(*                     exists) - ShutdownCompletes needs peers that read               *)
(*   "gaugeStoreRace"  the exported goroutine gauge is STORED from a separately        *)
(*                     updated counter (two steps) instead of being decremented        *)
EXTENDS Integers, Sequences, FiniteSets, TLC

CONSTANTS
          \* @type: Set(Int);
          Conns,
          \* @type: Int;
          MaxPkts,
          \* @type: Set(Str);
          Defects,
          \* @type: Bool;
          Record      \* keep the history of environment actions (off for liveness checking: it would never repeat a state)

VARIABLES
          \* @type: Str;
          ctx,       \* "live" | "cancelled"
          \* @type: Str;
          acc,       \* acceptor: "poll" | "accept" | "closing" | "waiting" | "returned"
          \* @type: Str;
          lis,       \* "open" | "closed"
          \* @type: Set(Int);
          offered,   \* connections waiting to be accepted
          \* @type: Int -> Str;
          cs,        \* [Conns -> connection goroutine state]
          \* @type: Int -> Bool;
          armed,     \* [Conns -> BOOLEAN] a finite read deadline is armed
          \* @type: Int -> Str;
          inp,       \* [Conns -> "none" | "partial" | "packet" | "eof"] what the client has sent and not yet been consumed
          \* @type: Int -> Bool;
          gate,      \* [Conns -> BOOLEAN] the goroutine may pass its start gate (RemoteAddr)
          \* @type: Int -> Bool;
          hgate,     \* [Conns -> BOOLEAN] the running handler may finish
          \* @type: Int;
          wg,        \* wait group counter
          \* @type: Int;
          gAcc,      \* serve_accepted gauge
          \* @type: Int;
          gWg,       \* waitgroup_handle_routines_active gauge (what an operator reads)
          \* @type: Int -> Int;
          pset,      \* [Conns -> value a finishing goroutine is about to store into gWg, or -1] (defect "gaugeStoreRace")
          \* @type: Int;
          npk,       \* packets fed so far (bound)
          \* @type: Seq(<<Str, Int>>);
          sched      \* history of environment actions (emitted as replay schedules)
vars == << ctx, acc, lis, offered, cs, armed, inp, gate, hgate, wg, gAcc, gWg, pset, npk, sched >>

D(x) == x \in Defects

Init == /\ ctx = "live" /\ acc = "poll" /\ lis = "open" /\ offered = {}
        /\ cs = [c \in Conns |-> "none"] /\ armed = [c \in Conns |-> FALSE] /\ inp = [c \in Conns |-> "none"]
        /\ gate = [c \in Conns |-> FALSE] /\ hgate = [c \in Conns |-> FALSE]
        /\ wg = 0 /\ gAcc = 0 /\ gWg = 0 /\ pset = [c \in Conns |-> -1] /\ npk = 0 /\ sched = <<>>

Env(a) == sched' = IF Record THEN Append(sched, a) ELSE sched
Same(v) == UNCHANGED v

\* ---- environment ---------------------------------------------------------
Offer(c) == /\ cs[c] = "none" /\ c \notin offered /\ acc # "returned" /\ offered' = offered \cup {c} /\ Env(<<"offer", c>>)
            /\ UNCHANGED << ctx, acc, lis, cs, armed, inp, gate, hgate, wg, gAcc, gWg, pset, npk >>
Release(c) == /\ ~gate[c] /\ cs[c] = "spawned" /\ gate' = [gate EXCEPT ![c] = TRUE] /\ Env(<<"release", c>>)
              /\ UNCHANGED << ctx, acc, lis, offered, cs, armed, inp, hgate, wg, gAcc, gWg, pset, npk >>
Feed(c, what) == /\ cs[c] \in {"read"} /\ inp[c] \in {"none", "partial"} /\ npk < MaxPkts
                 /\ inp' = [inp EXCEPT ![c] = what] /\ npk' = npk + 1 /\ Env(<<what, c>>)
                 /\ UNCHANGED << ctx, acc, lis, offered, cs, armed, gate, hgate, wg, gAcc, gWg, pset >>
Hangup(c) == /\ cs[c] = "read" /\ inp[c] \in {"none", "partial"} /\ inp' = [inp EXCEPT ![c] = "eof"] /\ Env(<<"eof", c>>)
             /\ UNCHANGED << ctx, acc, lis, offered, cs, armed, gate, hgate, wg, gAcc, gWg, pset, npk >>
HRelease(c) == /\ cs[c] = "handler" /\ ~hgate[c] /\ hgate' = [hgate EXCEPT ![c] = TRUE] /\ Env(<<"hrel", c>>)
               /\ UNCHANGED << ctx, acc, lis, offered, cs, armed, inp, gate, wg, gAcc, gWg, pset, npk >>
Cancel == /\ ctx = "live" /\ ctx' = "cancelled" /\ Env(<<"cancel", 0>>)
          /\ UNCHANGED << acc, lis, offered, cs, armed, inp, gate, hgate, wg, gAcc, gWg, pset, npk >>
\* the accept deadline (10 s) expires: Accept returns a temporary error and the loop polls its context
Kick == /\ acc = "accept" /\ offered = {} /\ acc' = "poll" /\ Env(<<"kick", 0>>)
        /\ UNCHANGED << ctx, lis, offered, cs, armed, inp, gate, hgate, wg, gAcc, gWg, pset, npk >>
\* the operator closes the listener itself (the only way to unblock Accept before its deadline)
OperatorClose == /\ lis = "open" /\ acc # "returned" /\ lis' = "closed" /\ Env(<<"lclose", 0>>)
                 /\ UNCHANGED << ctx, acc, offered, cs, armed, inp, gate, hgate, wg, gAcc, gWg, pset, npk >>
\* the read deadline (15 s) of a blocked read expires
Fire(c) == /\ cs[c] = "read" /\ armed[c] /\ inp[c] \in {"none", "partial"}
           /\ cs' = [cs EXCEPT ![c] = "exit"] /\ Env(<<"fire", c>>)
           /\ UNCHANGED << ctx, acc, lis, offered, armed, inp, gate, hgate, wg, gAcc, gWg, pset, npk >>

\* ---- acceptor (Serve) ------------------------------------------------------
\* Accept on a closed listener fails for good: Serve leaves its loop
AcceptFatal == /\ acc = "accept" /\ lis = "closed" /\ acc' = "closing"
               /\ UNCHANGED << ctx, lis, offered, cs, armed, inp, gate, hgate, wg, gAcc, gWg, pset, npk, sched >>
Poll == /\ acc = "poll" /\ acc' = IF ctx = "cancelled" THEN "closing" ELSE "accept"
        /\ UNCHANGED << ctx, lis, offered, cs, armed, inp, gate, hgate, wg, gAcc, gWg, pset, npk, sched >>
Accept(c) == /\ acc = "accept" /\ lis = "open" /\ c \in offered
             /\ offered' = offered \ {c} /\ cs' = [cs EXCEPT ![c] = "spawned"]
             /\ wg' = IF D("addInGoroutine") THEN wg ELSE wg + 1
             /\ gWg' = IF D("addInGoroutine") THEN gWg ELSE gWg + 1
             \* the loop polls its context between accepts; with the defect "pollOnlyOnTimeout" only after an Accept that timed out
             /\ acc' = IF D("pollOnlyOnTimeout") THEN "accept" ELSE "poll"
             /\ UNCHANGED << ctx, lis, armed, inp, gate, hgate, gAcc, pset, npk, sched >>
CloseListener == /\ acc = "closing" /\ lis' = "closed"
                 /\ acc' = IF lis = "closed" /\ D("closeErrNoWait") THEN "returned" ELSE "waiting"
                 /\ UNCHANGED << ctx, offered, cs, armed, inp, gate, hgate, wg, gAcc, gWg, pset, npk, sched >>
WaitDone == /\ acc = "waiting" /\ (wg = 0 \/ D("noWait")) /\ acc' = "returned"
            /\ UNCHANGED << ctx, lis, offered, cs, armed, inp, gate, hgate, wg, gAcc, gWg, pset, npk, sched >>

\* ---- connection goroutine (serve / handle) ---------------------------------
\* the admission lookup (SecretProvider.Get) is part of this step; with the defect the provider stops answering once the
\* context is cancelled (a loader whose update loop exits on cancellation while Get still sends to it)
Start(c) == /\ cs[c] = "spawned" /\ gate[c] /\ ~(D("lookupDiesOnCancel") /\ ctx = "cancelled")
            /\ cs' = [cs EXCEPT ![c] = "loop"] /\ gAcc' = gAcc + 1
            /\ wg' = IF D("addInGoroutine") THEN wg + 1 ELSE wg
            /\ gWg' = IF D("addInGoroutine") THEN gWg + 1 ELSE gWg
            /\ UNCHANGED << ctx, acc, lis, offered, armed, inp, gate, hgate, pset, npk, sched >>
LoopTop(c) == /\ cs[c] = "loop"
              /\ IF ctx = "cancelled" /\ ~D("serveOnAfterCancel") THEN cs' = [cs EXCEPT ![c] = "exit"] /\ UNCHANGED armed
                 ELSE cs' = [cs EXCEPT ![c] = "read"] /\ armed' = [armed EXCEPT ![c] = ~D("noDeadline")]
              /\ UNCHANGED << ctx, acc, lis, offered, inp, gate, hgate, wg, gAcc, gWg, pset, npk, sched >>
ReadDone(c) == /\ cs[c] = "read" /\ inp[c] \in {"packet", "eof"}
               /\ cs' = [cs EXCEPT ![c] = IF inp[c] = "packet" THEN "handler" ELSE "exit"]
               /\ inp' = [inp EXCEPT ![c] = "none"] /\ hgate' = [hgate EXCEPT ![c] = FALSE]
               /\ UNCHANGED << ctx, acc, lis, offered, armed, gate, wg, gAcc, gWg, pset, npk, sched >>
\* the handler's reply is written with no write deadline (crypt.go write): with the switch "peerNeverReads" the peer has stopped
\* reading and its receive window is full, so the write - and with it the handler - never finishes. Not a defect switch but the
\* environment assumption ShutdownCompletes rests on, shown to be necessary (control in the C17 check)
HandlerDone(c) == /\ cs[c] = "handler" /\ hgate[c] /\ ~D("peerNeverReads") /\ cs' = [cs EXCEPT ![c] = "loop"]
                  /\ UNCHANGED << ctx, acc, lis, offered, armed, inp, gate, hgate, wg, gAcc, gWg, pset, npk, sched >>
\* waitGroup.Done: the gauge is decremented (an atomic read-modify-write of the gauge itself) with the counter
Exit(c) == /\ cs[c] = "exit" /\ gAcc' = gAcc - 1 /\ wg' = wg - 1
           /\ IF D("gaugeStoreRace")
              THEN cs' = [cs EXCEPT ![c] = "storing"] /\ pset' = [pset EXCEPT ![c] = wg - 1] /\ UNCHANGED gWg
              ELSE cs' = [cs EXCEPT ![c] = "done"] /\ gWg' = gWg - 1 /\ UNCHANGED pset
           /\ UNCHANGED << ctx, acc, lis, offered, armed, inp, gate, hgate, npk, sched >>
StoreGauge(c) == /\ cs[c] = "storing" /\ gWg' = pset[c] /\ pset' = [pset EXCEPT ![c] = -1] /\ cs' = [cs EXCEPT ![c] = "done"]
                 /\ UNCHANGED << ctx, acc, lis, offered, armed, inp, gate, hgate, wg, gAcc, npk, sched >>

Internal == Poll \/ AcceptFatal \/ CloseListener \/ WaitDone \/ \E c \in Conns : Accept(c) \/ Start(c) \/ LoopTop(c) \/ ReadDone(c) \/ HandlerDone(c) \/ Exit(c) \/ StoreGauge(c)
Environment == Cancel \/ Kick \/ OperatorClose \/ \E c \in Conns : Offer(c) \/ Release(c) \/ Feed(c, "packet") \/ Feed(c, "partial") \/ Hangup(c) \/ HRelease(c) \/ Fire(c)
Next == Internal \/ Environment
Spec == Init /\ [][Next]_vars

\* fairness for the liveness property: every goroutine keeps running, gates are eventually released, accept and
\* read deadlines eventually expire
Fair == /\ WF_vars(Poll) /\ WF_vars(AcceptFatal) /\ WF_vars(CloseListener) /\ WF_vars(WaitDone) /\ WF_vars(Kick)
        /\ \A c \in Conns : /\ WF_vars(Accept(c)) /\ WF_vars(Start(c)) /\ WF_vars(LoopTop(c)) /\ WF_vars(ReadDone(c))
                            /\ WF_vars(HandlerDone(c)) /\ WF_vars(Exit(c)) /\ WF_vars(Release(c)) /\ WF_vars(HRelease(c)) /\ SF_vars(Fire(c))
LiveSpec == Spec /\ Fair

\* ---- properties -------------------------------------------------------------
Running(c) == cs[c] \in {"spawned", "loop", "read", "handler", "exit"}
\* after Serve returns: listener closed, every accepted connection's goroutine finished (so no handler runs, no connection is open)
ServeReturnsLast == acc = "returned" => (lis = "closed" /\ \A c \in Conns : ~Running(c))
\* a finite deadline is armed before every read
DeadlineArmed == \A c \in Conns : cs[c] = "read" => armed[c]
GaugesSane == wg >= 0 /\ gAcc >= 0 /\ gWg >= 0
AtRestWhenReturned == (acc = "returned" /\ \A c \in Conns : ~Running(c)) => (wg = 0 /\ gAcc = 0 /\ gWg = 0)
\* while Serve runs: the exported gauge counts exactly the connection goroutines that have not finished, so after a
\* burst, once every connection of it has closed, it is back where it was
GaugeTracksLive == gWg = Cardinality({ c \in Conns : Running(c) })
AtRestWhenIdle == (\A c \in Conns : cs[c] \in {"none", "done"}) => (gWg = 0 /\ gAcc = 0 /\ wg = 0)
\* the context is polled between accepts: a connection accepted under a cancelled context (Accept was already blocked when
\* the cancellation came) is the last one - otherwise a steady arrival of connections keeps Serve from ever returning
\* (the finite model cannot show that as a liveness failure: its connections run out)
PollsContextBetweenAccepts ==
   [][ /\ (ctx = "cancelled" /\ (\E c \in Conns : cs[c] # "spawned" /\ cs'[c] = "spawned")) => acc' = "poll"
       /\ (ctx = "cancelled" /\ acc = "poll" /\ acc' # "poll") => acc' = "closing" ]_vars
\* the connection loop polls the context before every read: under a cancelled context a connection goroutine at the top of its
\* loop leaves (the read that was already blocked may still deliver one request) - otherwise a client that keeps sending keeps
\* its connection, and Serve, alive for ever. Defect switch "serveOnAfterCancel" (a "graceful drain") as control.
PollsContextBetweenReads ==
   [][ \A c \in Conns : (ctx = "cancelled" /\ cs[c] = "loop" /\ cs'[c] # "loop") => cs'[c] = "exit" ]_vars
\* once cancelled, Serve returns (blocked reads reach their deadline, gates open)
ShutdownCompletes == (ctx = "cancelled") ~> (acc = "returned")

\* ---- inductive invariant (checked with Apalache for a fixed number of connections, ANY number of steps: --------
\* Init => IndInv, IndInv /\ Next => IndInv', IndInv => Safety; TLC above explores reachable states for 2-3 connections)
States == {"none", "spawned", "loop", "read", "handler", "exit", "done", "storing"}
Live(c) == cs[c] \in {"loop", "read", "handler", "exit"}
TypeOK == /\ ctx \in {"live", "cancelled"} /\ acc \in {"poll", "accept", "closing", "waiting", "returned"} /\ lis \in {"open", "closed"}
          /\ offered \in SUBSET Conns /\ cs \in [Conns -> States] /\ armed \in [Conns -> BOOLEAN]
          /\ inp \in [Conns -> {"none", "partial", "packet", "eof"}] /\ gate \in [Conns -> BOOLEAN] /\ hgate \in [Conns -> BOOLEAN]
          /\ wg \in 0..Cardinality(Conns) /\ gAcc \in 0..Cardinality(Conns) /\ gWg \in 0..Cardinality(Conns)
          /\ pset \in [Conns -> {-1}] /\ npk \in 0..MaxPkts /\ sched = <<>>
IndInv == /\ TypeOK
          /\ wg = Cardinality({ c \in Conns : Running(c) }) /\ gWg = wg
          /\ gAcc = Cardinality({ c \in Conns : Live(c) })
          /\ \A c \in Conns : cs[c] # "storing"
          /\ \A c \in offered : cs[c] = "none"
          /\ \A c \in Conns : cs[c] = "read" => armed[c]
          /\ acc \in {"waiting", "returned"} => lis = "closed"
          /\ acc = "returned" => wg = 0
Safety == ServeReturnsLast /\ DeadlineArmed /\ GaugesSane /\ AtRestWhenReturned /\ GaugeTracksLive /\ AtRestWhenIdle
\* constant initialisers for Apalache (--cinit): the design, and three defect switches as controls
CInit == Conns = {1, 2, 3, 4} /\ MaxPkts = 3 /\ Defects = {} /\ Record = FALSE
CInit6 == Conns = {1, 2, 3, 4, 5, 6} /\ MaxPkts = 3 /\ Defects = {} /\ Record = FALSE
CInitNoWait == Conns = {1, 2, 3, 4} /\ MaxPkts = 3 /\ Defects = {"noWait"} /\ Record = FALSE
CInitAddIn == Conns = {1, 2, 3, 4} /\ MaxPkts = 3 /\ Defects = {"addInGoroutine"} /\ Record = FALSE
CInitStoreRace == Conns = {1, 2, 3, 4} /\ MaxPkts = 3 /\ Defects = {"gaugeStoreRace"} /\ Record = FALSE
=============================================================================
