------------------------------ MODULE MC_Framing ------------------------------
(* All segmentations of all small streams: header = <<tag, len>> (HL = 2), bodies   *)
(* of 0..MaxB octets, a length of MaxB+1 stands for "more than the limit"; streams  *)
(* of up to MaxP packets, optionally cut short at every position.                   *)
EXTENDS Integers, Sequences, SequencesExt, FiniteSets, TLC
CONSTANTS MaxB, MaxP
MCHL == 2
MCBodyLen(h) == IF h[2] > MaxB THEN -1 ELSE h[2]

VARIABLES stream, net, buf, phase, curh, delivered, st
F == INSTANCE Framing WITH HL <- MCHL, BodyLen <- MCBodyLen

Pkt(tag, n) == << tag, n >> \o [i \in 1..(IF n > MaxB THEN 0 ELSE n) |-> 10 * tag + i]
RECURSIVE Streams(_)
\* all concatenations of up to k packets (tags number the packets so that losses/reorderings show)
Streams(k) == IF k = 0 THEN { <<>> }
              ELSE LET shorter == Streams(k - 1) IN
                   shorter \cup { s \o Pkt(k, n) : s \in { t \in shorter : Len(F!Parse(t).del) = k - 1 /\ F!Parse(t).st = "clean" }, n \in 0..(MaxB + 1) }
AllStreams == LET full == Streams(MaxP) IN full \cup UNION { { SubSeq(s, 1, j) : j \in 1..Len(s) } : s \in full }

Init == F!FInit({ s \in AllStreams : TRUE })
Next == F!FNext
Spec == Init /\ [][Next]_F!fvars
DeliveredIsPrefix == F!DeliveredIsPrefix
FinalMatches == F!FinalMatches
RefusedAtOnce == F!RefusedAtOnce
NoShortPacket == F!NoShortPacket
=============================================================================
