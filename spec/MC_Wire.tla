------------------------------- MODULE MC_Wire -------------------------------
(* Design check of Wire.tla itself (guards the specification against its own typos) *)
(* and bounded-exhaustive model of the decoders:                                    *)
(*  - values of a small exhaustive domain: Dec(Enc(v)) = v, Impl(Enc(v)) = ok v,    *)
(*    Enc injective on Fits, length of Enc(v);                                      *)
(*  - ALL octet strings up to MaxLen over a small alphabet, explored as a state     *)
(*    space (b' = Append(b, x)): the implementation-shaped decoder is total, a      *)
(*    returned value is Valid and lies inside the input (C04), the independent      *)
(*    length rule and the decoder's bad-secret test agree on classes M and W (C19). *)
EXTENDS Wire

CONSTANTS MaxLen, Alphabet

VARIABLE b
Init == b = <<>>
Next == Len(b) < MaxLen /\ \E x \in Alphabet : b' = Append(b, x)
Spec == Init /\ [][Next]_b

BodyKindSet == Kinds \ {"Header"}

VarPart(k, v) ==
   CASE k = "AuthenStart" -> v.user \o v.port \o v.raddr \o v.data
     [] k = "AuthenReply" -> v.msg \o v.data
     [] k = "AuthenContinue" -> v.msg \o v.data
     [] k = "AuthorRequest" -> v.user \o v.port \o v.raddr \o Flatten(v.args)
     [] k = "AuthorReply" -> v.msg \o v.data \o Flatten(v.args)
     [] k = "AcctRequest" -> v.user \o v.port \o v.raddr \o Flatten(v.args)
     [] k = "AcctReply" -> v.msg \o v.data
NArgs(k, v) == IF k \in {"AuthorRequest", "AuthorReply", "AcctRequest"} THEN Len(v.args) ELSE 0
Inside(k, v, s) == LET off == FixedLen(k) + NArgs(k, v)  vp == VarPart(k, v) IN
   vp = <<>> \/ (off + Len(vp) <= Len(s) /\ vp = SubSeq(s, off + 1, off + Len(vp)))

\* C04 (model): a value returned by the decoder is valid and made of octets of the input
ImplSafe == \A k \in BodyKindSet : LET m == Impl(k, b) IN
               /\ m.cls \in {"short", "badsecret", "invalid", "ok"}
               /\ m.cls = "ok" => Valid(k, m.v) /\ Inside(k, m.v, b)
\* the canonical decoder and the implementation-shaped one agree on canonical input
CanonAgree == \A k \in BodyKindSet : LET d == Dec(k, b) IN
               (d.ok /\ Valid(k, d.v)) => Impl(k, b) = Cls("ok", d.v)
\* C19 (model): the independent rule vs the decoder's test
MImpliesDetected == \A ty \in {1, 2, 3} : LenMismatch(ty, b) => ImplBadSecret(ty, b)
WNeverDetected   == \A ty \in {1, 2, 3} : WellFormedRequest(ty, b) => ~ImplBadSecret(ty, b)
\* where the rule is determinate for every layout, rule and detector coincide exactly
DeterminateCoincide == \A ty \in {1, 2, 3} : LenRuleDeterminate(ty, b) => (LenMismatch(ty, b) <=> ImplBadSecret(ty, b))
\* the packet decoder needs 12 + length <= len(in)
HeaderTotal == LET d == DecHeader(b) IN Len(b) >= 12 => d.ok

----------------------------------------------------------------------------
\* small exhaustive value domain
T0 == { <<>>, <<97>>, <<97, 98>> }
TX == T0 \cup { <<200>> }                       \* one non-ASCII text
A0 == { <<>>, << <<97, 61>> >>, << <<97, 61, 98>>, <<99, 42>> >> }
AuthenStartDom == [ action : {1, 2, 4, 3}, priv : {0, 15, 16}, atype : {0, 1, 2, 6, 7}, service : {0, 9, 10},
                    user : TX, port : T0, raddr : {<<>>, <<49>>}, data : TX ]
AuthenReplyDom == [ status : {0, 1, 6, 7, 8}, flags : {0, 1}, msg : TX, data : TX ]
AuthenContinueDom == [ flags : {0, 1}, msg : TX, data : TX ]
AuthorRequestDom == [ method : {0, 6, 16, 7}, priv : {1}, atype : {0, 1}, service : {1}, user : TX, port : T0, raddr : {<<>>}, args : A0 \cup { << <<97>> >> } ]
AuthorReplyDom == [ status : {1, 2, 16, 17, 3}, msg : TX, data : T0, args : A0 ]
AcctRequestDom == [ flags : {2, 4, 8, 10, 12}, method : {6}, priv : {1}, atype : {1}, service : {1}, user : T0, port : T0, raddr : {<<>>}, args : A0 \cup { << <<>> >> } ]
AcctReplyDom == [ status : {1, 2, 3}, msg : TX, data : T0 ]
HeaderDom == [ maj : {12, 11}, min : {0, 1, 2}, ty : {0, 1, 2, 3, 4}, seq : {0, 1, 2, 255}, fl : {0, 1, 4, 5, 255},
               sid : { <<1, 2, 3, 4>> }, len : { <<0, 0, 0, 0>>, <<0, 1, 0, 0>>, <<0, 1, 0, 1>>, <<1, 0, 0, 0>> } ]

RoundTrip(k, D) == \A v \in D :
   /\ Dec(k, Enc(k, v)) = Ok(v)
   /\ (k # "Header" /\ Valid(k, v)) => Impl(k, Enc(k, v)) = Cls("ok", v)
   /\ (k # "Header" /\ ~Valid(k, v)) => Impl(k, Enc(k, v)).cls = "invalid"
Injective(k, D) == \A v, w \in D : Enc(k, v) = Enc(k, w) => v = w

ASSUME RoundTrip("AuthenStart", AuthenStartDom)
ASSUME RoundTrip("AuthenReply", AuthenReplyDom)
ASSUME RoundTrip("AuthenContinue", AuthenContinueDom)
ASSUME RoundTrip("AuthorRequest", AuthorRequestDom)
ASSUME RoundTrip("AuthorReply", AuthorReplyDom)
ASSUME RoundTrip("AcctRequest", AcctRequestDom)
ASSUME RoundTrip("AcctReply", AcctReplyDom)
ASSUME RoundTrip("Header", HeaderDom)
ASSUME Injective("AuthenContinue", AuthenContinueDom) /\ Injective("AcctReply", AcctReplyDom) /\ Injective("AuthorReply", AuthorReplyDom)
ASSUME \A v \in AuthenReplyDom : Len(EncAuthenReply(v)) = 6 + Len(v.msg) + Len(v.data)
ASSUME PrintT(<< "DOMAIN-SIZES", Cardinality(AuthenStartDom), Cardinality(AuthenReplyDom), Cardinality(AuthenContinueDom),
                 Cardinality(AuthorRequestDom), Cardinality(AuthorReplyDom), Cardinality(AcctRequestDom), Cardinality(AcctReplyDom), Cardinality(HeaderDom) >>)
=============================================================================
