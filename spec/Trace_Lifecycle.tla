--------------------------- MODULE Trace_Lifecycle ---------------------------
(* C17 (and the Serve-level part of C20, the accept-loop part of C14) on schedules     *)
(* replayed on the real Serve (harness/life.go).  Only the OBSERVED order of events    *)
(* is judged - "Serve has not returned" is never inferred from a time-out:             *)
(*  - when Serve returns: the listener was closed, every accepted connection's         *)
(*    goroutine has finished, its connection is closed, no handler is running;         *)
(*  - every blocking read has a finite deadline armed;                                  *)
(*  - a connection still waiting for the rest of a packet after the deadline armed     *)
(*    for that packet has expired (logical clock) violates "no complete packet         *)
(*    before it expires => closed";                                                     *)
(*  - Serve returns on its own only after cancellation (else the server died: C14);    *)
(*  - the four in-flight gauges are never negative and at rest at the end (C20).       *)
EXTENDS Integers, Sequences, FiniteSets, TLC, Json, IOUtils

Tr == ndJsonDeserialize(IOEnv.TRACE_FILE)
N == Len(Tr)
VARIABLES l, sc, s, cnt
Tags(conds) == { c[2] : c \in { x \in conds : x[1] } }
S0 == [added |-> {}, done |-> {}, closed |-> {}, inh |-> {}, lclosed |-> FALSE, cancelled |-> FALSE, opclosed |-> FALSE, ret |-> FALSE,
       now |-> 0, dl0 |-> << >>, fresh |-> {}, bad |-> {}, blocked |-> FALSE, post |-> 0, hpost |-> << >>]
Get(f, k, d) == IF k \in DOMAIN f THEN f[k] ELSE d
Put(f, k, v) == [x \in DOMAIN f \cup {k} |-> IF x = k THEN v ELSE f[x]]

Step(e) ==
   CASE e.e = "add"    -> [s EXCEPT !.added = @ \cup {e.c}, !.fresh = @ \cup {e.c}, !.post = IF s.cancelled THEN @ + 1 ELSE @,
                                    \* Lifecycle!PollsContextBetweenAccepts: the Accept that was blocked when the cancellation came may
                                    \* still take one connection; a second one means the loop does not poll its context between accepts
                                    \* and a steady arrival keeps Serve from ever returning
                                    !.bad = @ \cup Tags({ << s.cancelled /\ s.post >= 1, "C17" >> })]
     [] e.e = "done"   -> [s EXCEPT !.done = @ \cup {e.c},
                                    !.bad = @ \cup Tags({ << s.ret, "C17" >> })]            \* a goroutine finishing after Serve returned
     [] e.e = "cl"     -> [s EXCEPT !.closed = @ \cup {e.c}]
     [] e.e = "hstart" -> [s EXCEPT !.inh = @ \cup {e.c}, !.fresh = @ \cup {e.c},
                                    !.hpost = IF s.cancelled THEN Put(@, e.c, Get(@, e.c, 0) + 1) ELSE @,
                                    \* Lifecycle!PollsContextBetweenReads: the read that was blocked when the cancellation came may still
                                    \* deliver one request; a second handler on the same connection means the loop goes on serving
                                    !.bad = @ \cup Tags({ << s.ret, "C17" >>,                \* a handler starting after Serve returned
                                                          << s.cancelled /\ Get(s.hpost, e.c, 0) >= 1, "C17" >> })]
     [] e.e = "hend"   -> [s EXCEPT !.inh = @ \ {e.c}]
     [] e.e = "lclose" -> [s EXCEPT !.lclosed = TRUE]
     [] e.e = "env"    -> [s EXCEPT !.cancelled = @ \/ e.op = "cancel", !.opclosed = @ \/ e.op = "lclose", !.now = IF e.op = "tick" THEN e.now + e.c ELSE @]
     [] e.e = "arm"    -> [s EXCEPT !.bad = @ \cup Tags({ << ~e.finite, "C17" >> }),
                                    \* the deadline armed for the packet now awaited (re-arming while it is awaited does not move it)
                                    !.dl0 = IF e.c \in s.fresh THEN Put(@, e.c, e.dl) ELSE @,
                                    !.fresh = @ \ {e.c}]
     [] e.e = "rdblock" -> [s EXCEPT !.bad = @ \cup Tags({ << ~e.armed, "C17" >>,
                                                         << e.c \notin s.fresh /\ Get(s.dl0, e.c, 1000000) <= s.now, "C17" >> })]
     [] e.e = "ret"    -> [s EXCEPT !.ret = TRUE,
                                    !.bad = @ \cup Tags({ << ~s.lclosed, "C17" >>,
                                                          << s.added \ s.done # {}, "C17" >>,      \* Serve returned while a connection goroutine was still running
                                                          << s.added \ s.closed # {}, "C17" >>,    \* ... or a connection still open
                                                          << s.inh # {}, "C17" >>,                 \* ... or a handler still running
                                                          << ~s.cancelled /\ ~s.opclosed, "C14" >> })]   \* the accept loop gave up without being told to
     \* a reading taken while Serve runs and every goroutine is parked: the routines gauge counts exactly the connection
     \* goroutines still running (Lifecycle!GaugeTracksLive); with none left all four are back at rest (Lifecycle!AtRestWhenIdle)
     [] e.e = "rest"   -> [s EXCEPT !.bad = @ \cup Tags({ << e.gs < 0 \/ e.gh < 0 \/ e.ga < 0 \/ e.gr < 0, "C20" >>,
                                                          << e.quiet /\ ~s.ret /\ e.gr # Cardinality(s.added \ s.done), "C20" >>,
                                                          << e.quiet /\ s.added \ s.done = {} /\ (e.gs # 0 \/ e.gh # 0 \/ e.ga # 0 \/ e.gr # 0), "C20" >> })]
     \* after cancellation, with every gate open, every deadline expired and every peer gone, connection goroutines are still
     \* blocked at the same place inside the server's own code in three goroutine dumps one second apart (harness blockedForGood)
     [] e.e = "blocked" -> [s EXCEPT !.blocked = TRUE]
     [] e.e = "fin"    -> [s EXCEPT !.bad = @ \cup Tags({ << e.gs < 0 \/ e.gh < 0 \/ e.ga < 0 \/ e.gr < 0, "C20" >>,
                                                          << e.returned /\ (e.gs # 0 \/ e.gh # 0 \/ e.ga # 0 \/ e.gr # 0), "C20" >>,
                                                          \* Serve does not return although nothing is left for the environment to do
                                                          << ~e.returned /\ s.blocked, "C17" >>,
                                                          << ~e.returned /\ s.blocked /\ (e.gs # 0 \/ e.gh # 0 \/ e.ga # 0 \/ e.gr # 0), "C20" >> })]
     [] OTHER -> s

Init == l = 1 /\ sc = "" /\ s = S0 /\ cnt = [sched |-> 0, returned |-> 0, stuck |-> 0]
Next ==
   /\ l <= N /\ l' = l + 1
   /\ LET e == Tr[l] IN
      IF e.e = "reset" THEN sc' = e.sc /\ s' = S0 /\ cnt' = [cnt EXCEPT !.sched = @ + 1]
      ELSE /\ LET n == Step(e) IN s' = n /\ (IF n.bad \ s.bad = {} THEN TRUE ELSE PrintT(<< "PV", n.bad \ s.bad, sc, l, e.e >>))
           /\ (IF e.e = "fin" /\ ~e.returned THEN PrintT(<< "STUCK", sc, l >>) ELSE TRUE)
           /\ cnt' = IF e.e = "fin" THEN [cnt EXCEPT !.returned = IF e.returned THEN @ + 1 ELSE @, !.stuck = IF e.returned THEN @ ELSE @ + 1] ELSE cnt
           /\ sc' = sc
Spec == Init /\ [][Next]_<< l, sc, s, cnt >>
Done == IF l = N + 1 THEN PrintT(<< "CNT", cnt >>) ELSE TRUE
Final == TLCGet("stats").diameter - 1 = N \/ (PrintT(<< "SHORT", TLCGet("stats").diameter - 1, N >>) /\ FALSE)
=============================================================================
