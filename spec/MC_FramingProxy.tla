--------------------------- MODULE MC_FramingProxy ---------------------------
(* All segmentations of all small proxy-mode streams: a line is a run of the octets  *)
(* 7 (acceptable) and 8 (unacceptable) closed by 0; header = <<tag, len>> with tags  *)
(* and body octets >= 10 so that they never contain the terminator by accident -     *)
(* except the length octet, which may be 0: then the NEXT line search starts inside  *)
(* the stream exactly as it does on real headers.                                    *)
EXTENDS Integers, Sequences, SequencesExt, FiniteSets, TLC
CONSTANTS MaxB, MaxP
MCHL == 2
MCBodyLen(h) == IF h[2] > MaxB THEN -1 ELSE h[2]
MCLineOK(line) == Len(line) >= 2 /\ \A i \in 1..Len(line) : line[i] # 8

VARIABLES stream, net, buf, phase, curh, delivered, st
P == INSTANCE FramingProxy WITH HL <- MCHL, BodyLen <- MCBodyLen, LineOK <- MCLineOK

Lines == { << 7, 0 >>, << 7, 7, 0 >>, << 8, 0 >>, << 0 >>, <<>> }     \* good, good, bad, empty line, line missing
Pkt(tag, n) == << 10 + tag, n >> \o [i \in 1..(IF n > MaxB THEN 0 ELSE n) |-> 20 + 10 * tag + i]
RECURSIVE Streams(_)
Streams(k) == IF k = 0 THEN { <<>> }
              ELSE LET shorter == Streams(k - 1) IN
                   shorter \cup { s \o ln \o Pkt(k, n) : s \in { t \in shorter : Len(P!ParseProxy(t).del) = k - 1 /\ P!ParseProxy(t).st = "clean" },
                                                        ln \in Lines, n \in 0..(MaxB + 1) }
AllStreams == LET full == Streams(MaxP) IN full \cup UNION { { SubSeq(s, 1, j) : j \in 1..Len(s) } : s \in full }

Init == P!PInit(AllStreams)
Next == P!PNext
Spec == Init /\ [][Next]_P!pvars
DeliveredIsPrefix == P!DeliveredIsPrefix
FinalMatches == P!FinalMatches
NoShortPacket == P!NoShortPacket
=============================================================================
