------------------------------ MODULE Trace_Args ------------------------------
(* Conformance of the request-reading operators of Authz.tla (ASV, ServiceOf,           *)
(* CommandOf, ArgString, Unique) with the argument helpers of authorize_fields.go, on    *)
(* recorded calls of the real helpers (harness/argsdrv.go).  These operators are what    *)
(* the C11 oracle reads a request with; a disagreement is reported as "DIV".             *)
EXTENDS Integers, Sequences, FiniteSets, TLC, Json, IOUtils, Authz

Tr == ndJsonDeserialize(IOEnv.TRACE_FILE)
N == Len(Tr)
VARIABLES l, cnt
SepStr(x) == IF x.sep = 0 THEN <<>> ELSE << x.sep >>
\* Unique keeps the first occurrence of each argument, compared after trimming
RECURSIVE UniqTrim(_,_,_,_)
UniqTrim(xs, k, seen, acc) == IF k > Len(xs) THEN acc
   ELSE IF Trim(xs[k]) \in seen THEN UniqTrim(xs, k + 1, seen, acc) ELSE UniqTrim(xs, k + 1, seen \cup {Trim(xs[k])}, Append(acc, xs[k]))
\* all cmd-arg values joined (CommandArgs keeps a trailing <cr>)
AllCmdArgs(args) == LET idx == { i \in 1..Len(args) : ASV(args[i]).a = SCmdArg } IN
   JoinSp([k \in 1..Cardinality(idx) |-> ASV(args[CHOOSE i \in idx : Cardinality({ j \in idx : j < i }) = k - 1]).v], 1)
FirstCmd(args) == LET i == FirstWith(args, SCmd) IN IF i = 0 THEN [a |-> <<>>, sep |-> 0, v |-> <<>>] ELSE ASV(args[i])

Agree(e) ==
   LET a == e.args IN
   /\ \A i \in 1..Len(a) : LET x == ASV(a[i]) IN e.asv[i] = << x.a, SepStr(x), x.v >>
   /\ e.service = ServiceOf(a)
   /\ e.csplit = << FirstCmd(a).a, SepStr(FirstCmd(a)), FirstCmd(a).v >>
   /\ e.command = FirstCmd(a).v
   /\ e.cargs = AllCmdArgs(a)
   /\ e.cargsnole = ArgString(a)
   /\ e.unique = UniqTrim(a, 1, {}, <<>>)

Init == l = 1 /\ cnt = [calls |-> 0, agree |-> 0]
Next == /\ l <= N /\ l' = l + 1
        /\ LET e == Tr[l] ok == Agree(e) IN
           /\ (IF ok THEN TRUE ELSE PrintT(<< "DIV", "args", l, e.args >>))
           /\ cnt' = [cnt EXCEPT !.calls = @ + 1, !.agree = IF ok THEN @ + 1 ELSE @]
Spec == Init /\ [][Next]_<< l, cnt >>
Done == IF l = N + 1 THEN PrintT(<< "CNT", cnt >>) ELSE TRUE
Final == TLCGet("stats").diameter - 1 = N \/ (PrintT(<< "SHORT", TLCGet("stats").diameter - 1, N >>) /\ FALSE)
=============================================================================
