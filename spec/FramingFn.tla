------------------------------ MODULE FramingFn ------------------------------
(* The function part of Framing.tla: what a conformant receiver delivers from a     *)
(* byte stream that has ended or stalled.  Defined on the stream alone, so          *)
(* independent of segmentation by construction.                                     *)
EXTENDS Integers, Sequences, SequencesExt, TLC

CONSTANTS HL,            \* header length (12; scaled down in MC)
          BodyLen(_)     \* announced body length of a header, or -1 when it exceeds the limit

RECURSIVE ParseFrom(_,_)
ParseFrom(s, acc) ==
   IF Len(s) = 0 THEN [del |-> acc, st |-> "clean"]
   ELSE IF Len(s) < HL THEN [del |-> acc, st |-> "failed"]
   ELSE LET h == SubSeq(s, 1, HL)  n == BodyLen(h) IN
        IF n < 0 THEN [del |-> acc, st |-> "refused"]
        ELSE IF Len(s) < HL + n THEN [del |-> acc, st |-> "failed"]
        ELSE ParseFrom(SubSeq(s, HL + n + 1, Len(s)), Append(acc, [h |-> h, b |-> SubSeq(s, HL + 1, HL + n)]))
Parse(s) == ParseFrom(s, <<>>)

=============================================================================
