SPECIFICATION Spec
POSTCONDITION Final
CHECK_DEADLOCK FALSE
