----------------------------- MODULE MC_LoaderConc -----------------------------
EXTENDS LoaderConc, Json, IOUtils, CSV
View == << gen, upc, pg, fg, q >>
EmitFile == IF "EMIT_FILE" \in DOMAIN IOEnv THEN IOEnv.EMIT_FILE ELSE ""
Emit == IF EmitFile # "" /\ sched' # sched THEN CSVWrite("%1$s", << ToJson(sched') >>, EmitFile) ELSE TRUE
=============================================================================
