----------------------------- MODULE MC_Lifecycle -----------------------------
EXTENDS Lifecycle, Json, IOUtils, CSV
View == << ctx, acc, lis, offered, cs, armed, inp, gate, hgate, wg, gAcc, gWg, pset, npk >>
EmitFile == IF "EMIT_FILE" \in DOMAIN IOEnv THEN IOEnv.EMIT_FILE ELSE ""
Emit == IF EmitFile # "" /\ sched' # sched THEN CSVWrite("%1$s", << ToJson(sched') >>, EmitFile) ELSE TRUE
=============================================================================
