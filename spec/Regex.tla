-------------------------------- MODULE Regex --------------------------------
(* Regular expressions as abstract syntax trees and whole-string matching (C11).     *)
(* A node is a record with field t:                                                  *)
(*   lit(c) any cat(l,r) alt(l,r) star(r) plus(r) opt(r) grp(r) bol eol empty        *)
(*   class(cs, neg)  invalid                                                         *)
(* Ends(r, s, i) = the set of positions at which a match of r starting at position i *)
(* of s can end; ^ and $ are position assertions.  Whole(r, s): r matches ALL of s.  *)
(* (Greedy / lazy quantifiers define the same language, so they are not told apart.) *)
EXTENDS Integers, Sequences, FiniteSets

RECURSIVE Ends(_,_,_)
RECURSIVE StarEnds(_,_,_,_)
Ends(r, s, i) ==
   CASE r.t = "lit"   -> IF i < Len(s) /\ s[i+1] = r.c THEN {i+1} ELSE {}
     [] r.t = "any"   -> IF i < Len(s) /\ s[i+1] # 10 THEN {i+1} ELSE {}          \* . does not match newline
     [] r.t = "class" -> IF i < Len(s) /\ ((s[i+1] \in {r.cs[k] : k \in 1..Len(r.cs)}) # r.neg) THEN {i+1} ELSE {}
     [] r.t = "bol"   -> IF i = 0 THEN {i} ELSE {}
     [] r.t = "eol"   -> IF i = Len(s) THEN {i} ELSE {}
     [] r.t = "empty" -> {i}
     [] r.t = "cat"   -> UNION { Ends(r.r, s, k) : k \in Ends(r.l, s, i) }
     [] r.t = "alt"   -> Ends(r.l, s, i) \cup Ends(r.r, s, i)
     [] r.t = "grp"   -> Ends(r.r, s, i)
     [] r.t = "opt"   -> {i} \cup Ends(r.r, s, i)
     [] r.t = "star"  -> StarEnds(r.r, s, {i}, {i})
     [] r.t = "plus"  -> LET first == Ends(r.r, s, i) IN IF first = {} THEN {} ELSE StarEnds(r.r, s, first, first)
     [] r.t = "invalid" -> {}
StarEnds(r, s, fr, acc) == LET nxt == (UNION { Ends(r, s, k) : k \in fr }) \ acc
                           IN IF nxt = {} THEN acc ELSE StarEnds(r, s, nxt, acc \cup nxt)

Whole(r, s) == r.t # "invalid" /\ Len(s) \in Ends(r, s, 0)
=============================================================================
