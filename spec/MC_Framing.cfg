SPECIFICATION Spec
CONSTANTS
  MaxB = 2
  MaxP = 3
INVARIANTS DeliveredIsPrefix FinalMatches RefusedAtOnce NoShortPacket
CHECK_DEADLOCK FALSE
