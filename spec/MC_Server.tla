------------------------------ MODULE MC_Server ------------------------------
(* Bounded exhaustive configuration of Server.tla with the Chaos handler:          *)
(* every history of (session id, sequence number, header flavour, reader class,     *)
(* handler behaviour) up to MaxPkts packets on one connection.                      *)
(* Also the emitter of replay scripts: one script per explored client transition.  *)
EXTENDS Server, IOUtils, Json, CSV

CONSTANTS MaxPkts, SEQS, DefectSet
ASSUME Defects = DefectSet

\* header flavours (type, minor version, flag octet): not a full product, the random
\* driver on the Go side covers all 3 x 2 x 256 combinations
Flavours == { [ty |-> 1, min |-> 0, fl |-> 0], [ty |-> 2, min |-> 1, fl |-> 1],
              [ty |-> 3, min |-> 0, fl |-> 5], [ty |-> 1, min |-> 1, fl |-> 255] }
\* Chaos handler: replies exactly once, with or without a continuation; RESTART only without
\* (a first attempt whose body fails its own validation writes nothing and is followed by the real reply)
ChaosOps == { <<"reply">>, <<"next", "reply">>, <<"restart">>, <<"badreply", "reply">>, <<"next", "badreply", "reply">>, <<"xreply">> }
OkPackets  == { p \in { [sid |-> s, seq |-> q, ty |-> f.ty, min |-> f.min, fl |-> f.fl, rd |-> "ok", ops |-> o] :
                         s \in SID, q \in SEQS, f \in Flavours, o \in ChaosOps } :
                p.ops = <<"restart">> => p.ty = 1 }       \* RESTART is an authentication status
\* packets the reader refuses: one flavour is enough for the state machine
BadPackets == { [sid |-> s, seq |-> q, ty |-> 1, min |-> 0, fl |-> f, rd |-> c, ops |-> <<"reply">>] :
                s \in SID, q \in {1, 3}, f \in {0, 1}, c \in {"short", "badhdr", "oversize", "mismatch"} }
MCPackets == OkPackets \cup BadPackets

Bound == npk <= MaxPkts
SendBound == npk < MaxPkts

MCNext == (SendBound /\ \E p \in MCPackets : ClientSend(p)) \/ (SendBound /\ ClientEOF)
          \/ ReadErrWrite \/ Read \/ Get \/ HStep(ContId) \/ Post
MCSpec == Init /\ [][MCNext]_vars

View == << mvars, hi, regd, viol >>

\* ---- script emission: one JSON line per client transition (shortest path + the step) ----
EmitFile == IF "EMIT_FILE" \in DOMAIN IOEnv THEN IOEnv.EMIT_FILE ELSE ""
Emit == IF EmitFile # "" /\ script' # script
        THEN CSVWrite("%1$s", << ToJson(script') >>, EmitFile)
        ELSE TRUE
=============================================================================
