SPECIFICATION Spec
CONSTANTS
  Lookups = {1, 2}
  MaxGen = 3
  Defects = {}
  Record = TRUE
VIEW View
ACTION_CONSTRAINT Emit
INVARIANTS AtomicLookup CurrentLookup NoSharedRead
CHECK_DEADLOCK FALSE
