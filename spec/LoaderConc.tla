------------------------------ MODULE LoaderConc ------------------------------
(* The loader's update/query loop (loader.go updates()): one goroutine owns the        *)
(* variables providers / prefixDeny / prefixAllow, assigns them on every configuration  *)
(* it receives (providers first, filters second), and spawns one goroutine per lookup   *)
(* which tests the deny filter, the allow filter and then searches the providers - three *)
(* separate steps.  A value is identified by the generation that wrote it.              *)
(*                                                                                      *)
(* Intended design: the lookup goroutine works on the three values current when the      *)
(* query was received (parameters of the goroutine).  Defects:                          *)
(*   "closure"  it reads the loop's variables when it gets to them (shared, unsynchronised) *)
(*   "inplace"  a reload rebuilds the providers inside the array earlier lookups still hold *)
EXTENDS Integers, Sequences, FiniteSets, TLC

CONSTANTS Lookups, MaxGen, Defects, Record

VARIABLES gen,     \* generations completely installed
          upc,     \* update in progress: "idle" | "built" (providers assigned, filters not yet)
          pg, fg,  \* generation currently held by the loop's providers / filters variables
          q,       \* [Lookups -> lookup state]
          sched
vars == << gen, upc, pg, fg, q, sched >>

NoQ == [st |-> "none", sp |-> 0, sf |-> 0, g0 |-> 0, r1 |-> 0, r2 |-> 0, r3 |-> 0]
Init == gen = 1 /\ upc = "idle" /\ pg = 1 /\ fg = 1 /\ q = [i \in Lookups |-> NoQ] /\ sched = <<>>
Env(a) == sched' = IF Record THEN Append(sched, a) ELSE sched

UpdateBuild == /\ upc = "idle" /\ gen < MaxGen /\ pg' = gen + 1 /\ upc' = "built" /\ Env(<<"build", 0>>) /\ UNCHANGED << gen, fg, q >>
UpdateFilters == /\ upc = "built" /\ fg' = pg /\ gen' = gen + 1 /\ upc' = "idle" /\ Env(<<"filters", 0>>) /\ UNCHANGED << pg, q >>
\* the loop receives a query only between two updates
Spawn(i) == /\ q[i].st = "none" /\ upc = "idle"
            /\ q' = [q EXCEPT ![i] = [NoQ EXCEPT !.st = "q1", !.sp = pg, !.sf = fg, !.g0 = gen]]
            /\ Env(<<"spawn", i>>) /\ UNCHANGED << gen, upc, pg, fg >>
FilterRead(i) == IF "closure" \in Defects THEN fg ELSE q[i].sf
ProvRead(i) == IF "closure" \in Defects \/ "inplace" \in Defects THEN pg ELSE q[i].sp
Q1(i) == /\ q[i].st = "q1" /\ q' = [q EXCEPT ![i].st = "q2", ![i].r1 = FilterRead(i)] /\ Env(<<"q1", i>>) /\ UNCHANGED << gen, upc, pg, fg >>
Q2(i) == /\ q[i].st = "q2" /\ q' = [q EXCEPT ![i].st = "q3", ![i].r2 = FilterRead(i)] /\ Env(<<"q2", i>>) /\ UNCHANGED << gen, upc, pg, fg >>
Q3(i) == /\ q[i].st = "q3" /\ q' = [q EXCEPT ![i].st = "done", ![i].r3 = ProvRead(i)] /\ Env(<<"q3", i>>) /\ UNCHANGED << gen, upc, pg, fg >>

Next == UpdateBuild \/ UpdateFilters \/ \E i \in Lookups : Spawn(i) \/ Q1(i) \/ Q2(i) \/ Q3(i)
Spec == Init /\ [][Next]_vars

\* every lookup observes one complete configuration: the three values it used belong to one generation
AtomicLookup == \A i \in Lookups : q[i].st = "done" => (q[i].r1 = q[i].r2 /\ q[i].r2 = q[i].r3)
\* ... and that generation was in force at some moment of the lookup
CurrentLookup == \A i \in Lookups : q[i].st = "done" => (q[i].r3 >= q[i].g0 /\ q[i].r3 <= gen + (IF upc = "built" THEN 1 ELSE 0))
\* no lookup goroutine reads the loop's variables (go-statement ordering does not cover later assignments)
NoSharedRead == "closure" \notin Defects
=============================================================================
