------------------------------- MODULE Framing -------------------------------
(* Packet framing over a byte stream (crypt.go crypter.read: bufio.Reader + two     *)
(* io.ReadFull calls, length test between them).                                    *)
(*  Parse(s)   what a conformant receiver delivers from the byte stream s once it   *)
(*             has ended or stalled - defined on the stream alone, so independent   *)
(*             of segmentation by construction (the property).                      *)
(*  the state machine below is the implementation-shaped reader fed in arbitrary    *)
(*  chunks through a read-ahead buffer; MC_Framing checks, for ALL segmentations of *)
(*  all small streams, that it delivers exactly Parse(stream).                      *)
EXTENDS FramingFn

----------------------------------------------------------------------------
VARIABLES stream,     \* the whole byte stream the sender wrote (constant during a behaviour)
          net,        \* octets still in transit
          buf,        \* octets read ahead by the receiver (bufio)
          phase,      \* "hdr" | "body"
          curh,       \* header of the packet being read
          delivered,  \* packets handed to the caller
          st          \* "running" | "clean" | "failed" | "refused"
fvars == << stream, net, buf, phase, curh, delivered, st >>

FInit(streams) ==
   /\ stream \in streams /\ net = stream /\ buf = <<>> /\ phase = "hdr" /\ curh = <<>>
   /\ delivered = <<>> /\ st = "running"

Need == IF phase = "hdr" THEN HL ELSE BodyLen(curh)
Blocked == st = "running" /\ Len(buf) < Need

\* the network hands the receiver the next k octets (any k: this is the segmentation)
Deliver(k) ==
   /\ Blocked /\ k \in 1..Len(net)
   /\ buf' = buf \o SubSeq(net, 1, k) /\ net' = SubSeq(net, k + 1, Len(net))
   /\ UNCHANGED << stream, phase, curh, delivered, st >>

\* io.ReadFull returns: a header, or a body
Step ==
   /\ st = "running" /\ Len(buf) >= Need
   /\ IF phase = "hdr"
      THEN LET h == SubSeq(buf, 1, HL) IN
           /\ buf' = SubSeq(buf, HL + 1, Len(buf))
           /\ IF BodyLen(h) < 0
              THEN st' = "refused" /\ UNCHANGED << phase, curh, delivered >>      \* at once: nothing further is read
              ELSE phase' = "body" /\ curh' = h /\ UNCHANGED << delivered, st >>
      ELSE LET n == BodyLen(curh) IN
           /\ delivered' = Append(delivered, [h |-> curh, b |-> SubSeq(buf, 1, n)])
           /\ buf' = SubSeq(buf, n + 1, Len(buf))
           /\ phase' = "hdr" /\ curh' = <<>> /\ UNCHANGED st
   /\ UNCHANGED << stream, net >>

\* the stream ends (or the read deadline fires) while the receiver waits for more
EndOfStream ==
   /\ Blocked /\ net = <<>>
   /\ st' = IF phase = "hdr" /\ buf = <<>> THEN "clean" ELSE "failed"
   /\ UNCHANGED << stream, net, buf, phase, curh, delivered >>

FNext == (\E k \in 1..Len(net) : Deliver(k)) \/ Step \/ EndOfStream

\* ---- properties ----------------------------------------------------------
DeliveredIsPrefix == IsPrefix(delivered, Parse(stream).del)
FinalMatches == st # "running" => (delivered = Parse(stream).del /\ st = Parse(stream).st)
\* a refusal happens in the step that completes the header: no octet of the announced body was needed
RefusedAtOnce == st = "refused" => Len(delivered) = Len(Parse(stream).del)
NoShortPacket == \A i \in 1..Len(delivered) : Len(delivered[i].b) = BodyLen(delivered[i].h)
=============================================================================
