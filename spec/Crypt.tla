-------------------------------- MODULE Crypt --------------------------------
(* RFC 8907 section 4.5 body obfuscation, stated from the RFC text:               *)
(*   pseudo_pad = {MD5_1 [,MD5_2 [ ... ,MD5_n]]} truncated to len(data)           *)
(*   MD5_1 = MD5{session_id, key, version, seq_no}                                *)
(*   MD5_n = MD5{session_id, key, version, seq_no, MD5_n-1}                       *)
(*   ENCRYPTED{data} = data ^ pseudo_pad ; unchanged when TAC_PLUS_UNENCRYPTED_FLAG *)
(* Anchors in the code: crypt.go crypt(), crypter.read/write.                     *)
EXTENDS Integers, Sequences, SequencesExt, Bitwise, MD5

UnencryptedBit == 1

\* flag octet has bit 0x01 set
ClearFlag(fl) == (fl % 2) = 1

\* session id is the 4 big-endian octets as they appear in the header
PadSeed(sid4, key, ver, seq) == sid4 \o key \o <<ver>> \o <<seq>>

\* the pad is built block by block with SequencesExt!FoldLeft (a Java-implemented fold hands each step an
\* evaluated accumulator; a RECURSIVE formulation made TLC re-evaluate the digest chain quadratically)
PadSteps(seed, k) ==
   FoldLeft(LAMBDA out, i : out \o MD5(seed \o (IF out = <<>> THEN <<>> ELSE SubSeq(out, Len(out) - 15, Len(out)))),
            <<>>, [i \in 1..k |-> i])

Pad(key, sid4, ver, seq, n) ==
   IF n = 0 THEN <<>> ELSE SubSeq(PadSteps(PadSeed(sid4, key, ver, seq), (n + 15) \div 16), 1, n)

XorSeq(a, p) == [i \in 1..Len(a) |-> a[i] ^^ p[i]]

\* what travels on the wire for cleartext body `clear` under header (sid4, ver, seq, fl)
OnWire(key, sid4, ver, seq, fl, clear) ==
   IF ClearFlag(fl) THEN clear ELSE XorSeq(clear, Pad(key, sid4, ver, seq, Len(clear)))

\* what a receiver holding `key` recovers from wire body `wire` (XOR is an involution)
FromWire(key, sid4, ver, seq, fl, wire) == OnWire(key, sid4, ver, seq, fl, wire)

----------------------------------------------------------------------------
\* Facts about the definition itself, checked by MC_Crypt on small domains.
PadPrefix(key, sid4, ver, seq, n, m) ==
   n <= m => Pad(key, sid4, ver, seq, n) = SubSeq(Pad(key, sid4, ver, seq, m), 1, n)
Involution(key, sid4, ver, seq, fl, body) ==
   FromWire(key, sid4, ver, seq, fl, OnWire(key, sid4, ver, seq, fl, body)) = body

\* the captured vector of crypt_test.go: key "fooman", session 12345, version 0xc1, seq 1
CryptSelfTest ==
   LET key == <<102,111,111,109,97,110>>
       sid == <<0,0,48,57>>
   IN /\ Len(Pad(key, sid, 193, 1, 44)) = 44
      /\ Pad(key, sid, 193, 1, 16) = MD5(sid \o key \o <<193, 1>>)
      /\ SubSeq(Pad(key, sid, 193, 1, 32), 17, 32) = MD5(sid \o key \o <<193, 1>> \o MD5(sid \o key \o <<193, 1>>))
=============================================================================
