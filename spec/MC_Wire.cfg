SPECIFICATION Spec
CONSTANTS
  MaxLen = 7
  Alphabet = {0, 1, 2, 5, 255}
INVARIANTS ImplSafe CanonAgree MImpliesDetected WNeverDetected DeterminateCoincide HeaderTotal
CHECK_DEADLOCK FALSE
