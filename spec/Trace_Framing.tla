---------------------------- MODULE Trace_Framing ----------------------------
(* C05 on recorded executions of the real server reading a byte stream that the     *)
(* harness cut into arbitrary chunks (harness/chaos.go stream mode).                *)
(* The packets the handler received (header fields, clear body, order) must be      *)
(* exactly FramingFn!Parse(stream) - however the stream was segmented; an oversize  *)
(* header is refused at once (connection closed although nothing else arrives, no   *)
(* buffer of the announced size); a stream that ends or stalls inside a packet      *)
(* closes the connection without delivering a shortened packet.                     *)
EXTENDS Integers, Sequences, FiniteSets, TLC, Json, IOUtils, Wire, Proxy

Tr == ndJsonDeserialize(IOEnv.TRACE_FILE)
N == Len(Tr)
RealBodyLen(h) == IF Len4Small(SubSeq(h, 9, 12)) THEN Len4Val(SubSeq(h, 9, 12)) ELSE -1
F == INSTANCE FramingFn WITH HL <- 12, BodyLen <- RealBodyLen
\* proxy mode (SetUseProxy): the reader as the code has it - outside the listed properties, so a disagreement between
\* the real server and FramingProxy!ParseProxy is reported as a divergence of the model ("DIV"), never as a violation
PF == INSTANCE FramingProxy WITH HL <- 12, BodyLen <- RealBodyLen, LineOK <- ProxyLineOK,
         stream <- <<>>, net <- <<>>, buf <- <<>>, phase <- "line", curh <- <<>>, delivered <- <<>>, st <- "running"

VARIABLES l, sc, cur, invs, nwr, cnt
vars == << l, sc, cur, invs, nwr, cnt >>
Tags(conds) == { c[2] : c \in { x \in conds : x[1] } }

RECURSIVE Cat(_,_)
Cat(pk, i) == IF i > Len(pk) THEN <<>> ELSE pk[i].pre \o pk[i].h \o pk[i].b \o Cat(pk, i + 1)
StreamOf(e) == LET all == Cat(e.pk, 1) IN SubSeq(all, 1, e.n)

NoStream == [n |-> -1]
SameAs(iv, p) == LET h == DecHeader(p.h).v IN
   /\ iv.sid = h.sid /\ iv.seq = h.seq /\ iv.ty = h.ty /\ iv.maj = h.maj /\ iv.min = h.min /\ iv.fl = h.fl
   /\ iv.b = p.b                      \* stream scenarios carry the clear flag: the body travels verbatim

IsProxy == "proxy" \in DOMAIN cur /\ cur.proxy
Judge(e) ==
   LET P == IF IsProxy THEN PF!ParseProxy(StreamOf(cur)) ELSE F!Parse(StreamOf(cur))
       same == Len(invs) = Len(P.del) /\ \A i \in 1..Len(invs) : SameAs(invs[i], P.del[i])
   IN Tags({ << ~same, "C05" >>,
             << P.st \in {"refused", "badline"} /\ ~e.closed, "C05" >>,
             << P.st \in {"refused", "badline"} /\ e.blocked, "C05" >>,
             << P.st = "refused" /\ e.alloc > 1048576 + 4 * cur.n, "C05" >>,
             << P.st = "failed" /\ cur.end \in {"eof", "fire"} /\ ~e.closed, "C05" >>,
             << P.st = "clean" /\ cur.end = "eof" /\ ~e.closed, "C05" >>,
             << P.st \in {"clean", "failed"} /\ cur.end = "idle" /\ e.closed, "C05" >> })

Init == l = 1 /\ sc = "" /\ cur = NoStream /\ invs = <<>> /\ nwr = 0 /\ cnt = [streams |-> 0, packets |-> 0, cut |-> 0, refused |-> 0, failed |-> 0, proxy |-> 0, badline |-> 0]
Next ==
   /\ l <= N /\ l' = l + 1
   /\ LET e == Tr[l] IN
      CASE e.e = "reset" -> sc' = e.sc /\ cur' = NoStream /\ invs' = <<>> /\ nwr' = 0 /\ cnt' = cnt
        [] e.e = "stream" -> cur' = e /\ invs' = <<>> /\ nwr' = 0 /\ UNCHANGED << sc, cnt >>
        [] e.e = "inv" /\ cur.n >= 0 ->
             \* C07 on pipelined requests (several packets per read): the reply to a request is written before the next
             \* request is handed to a handler (every stream packet is answered exactly once by the scripted handler)
             /\ (IF nwr # Len(invs) /\ ~IsProxy THEN PrintT(<< "PV", {"C07"}, sc, l, "stream" >>) ELSE TRUE)
             /\ invs' = Append(invs, e) /\ UNCHANGED << sc, cur, nwr, cnt >>
        [] e.e = "late" /\ cur.n >= 0 ->
             \* what a handler that kept the body it was given sees once the whole stream has been read: still that packet's body
             /\ (IF e.i <= Len(invs) /\ e.b # invs[e.i].b /\ ~IsProxy THEN PrintT(<< "PV", {"C05"}, sc, l, "stream" >>) ELSE TRUE)
             /\ UNCHANGED << sc, cur, invs, nwr, cnt >>
        [] e.e = "wr" /\ cur.n >= 0 -> nwr' = nwr + 1 /\ UNCHANGED << sc, cur, invs, cnt >>
        [] e.e = "send" /\ cur.n >= 0 ->
             /\ (IF nwr # Len(invs) /\ ~IsProxy THEN PrintT(<< "PV", {"C07"}, sc, l, "stream" >>) ELSE TRUE)    \* at rest: every delivered request has its reply
             /\ LET t == Judge(e) IN IF t = {} THEN TRUE
                                     ELSE IF IsProxy THEN PrintT(<< "DIV", sc, l, "proxy-mode stream differs from FramingProxy!ParseProxy" >>)
                                     ELSE PrintT(<< "PV", t, sc, l, "stream" >>)
             /\ LET P == IF IsProxy THEN PF!ParseProxy(StreamOf(cur)) ELSE F!Parse(StreamOf(cur)) IN
                cnt' = [cnt EXCEPT !.streams = @ + 1, !.packets = @ + Len(invs), !.cut = @ + Len(cur.cuts),
                                   !.refused = IF P.st = "refused" THEN @ + 1 ELSE @, !.failed = IF P.st = "failed" THEN @ + 1 ELSE @,
                                   !.proxy = IF IsProxy THEN @ + 1 ELSE @, !.badline = IF P.st = "badline" THEN @ + 1 ELSE @]
             /\ UNCHANGED << sc, cur, invs, nwr >>
        [] OTHER -> UNCHANGED << sc, cur, invs, nwr, cnt >>
Spec == Init /\ [][Next]_vars
Done == IF l = N + 1 THEN PrintT(<< "CNT", cnt >>) ELSE TRUE
Final == TLCGet("stats").diameter - 1 = N \/ (PrintT(<< "SHORT", TLCGet("stats").diameter - 1, N >>) /\ FALSE)
=============================================================================
