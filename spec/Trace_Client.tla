----------------------------- MODULE Trace_Client -----------------------------
(* The client side of the wire (client.go Send/SendOnly over crypter.write/read),   *)
(* driven over loopback TCP against a scripted raw peer (harness/client.go).        *)
(*  csend: the octets the peer received for a request the client was asked to send  *)
(*  crecv: what the client returned for the octets the peer wrote (in several TCP   *)
(*         writes)                                                                  *)
(* C01: the 12 header octets are the RFC layout of the header value.                *)
(* C03: body on the wire = clear XOR Pad (verbatim with the clear flag); length and *)
(*      header untouched; a receiver with the same secret recovers the clear body.  *)
(* C05: the reply is reassembled whatever the segmentation.                         *)
EXTENDS Integers, Sequences, FiniteSets, TLC, Json, IOUtils, Wire, Crypt

Tr == ndJsonDeserialize(IOEnv.TRACE_FILE)
N == Len(Tr)
VARIABLES l, cnt
Tags(conds) == { c[2] : c \in { x \in conds : x[1] } }
Ver(h) == h.maj * 16 + h.min

SendTags(e) ==
   LET h == e.hv
       okv == ValidHeader(h) /\ Len(e.cb) <= 65536
       w == e.wire
   IN IF ~okv THEN {} ELSE
      Tags({ << Len(w) # 12 + Len(e.cb), "C03" >>,
             << Len(w) >= 12 /\ Take(w, 12) # EncHeader(h), "C01" >>,
             << Len(w) = 12 + Len(e.cb) /\ Drop(w, 12) # OnWire(e.key, h.sid, Ver(h), h.seq, h.fl, e.cb), "C03" >> })

RecvTags(e) ==
   LET w == e.wire
       d == DecHeader(Take(w, 12)).v
       clr == FromWire(e.key, d.sid, Ver(d), d.seq, d.fl, Drop(w, 12))
       wf == ValidHeader(d) /\ Dec(ReplyKind(d.ty), clr).ok
   IN Tags({ << wf /\ ~e.ok, "C05" >>,
             << e.ok /\ e.hv # HeaderAsDecoded(d), "C05" >>,
             << e.ok /\ Len(e.b) # Len(clr), "C05" >>,
             << e.ok /\ Len(e.b) = Len(clr) /\ e.b # clr, "C03" >> })

Init == l = 1 /\ cnt = [csend |-> 0, crecv |-> 0, obf |-> 0]
Next ==
   /\ l <= N /\ l' = l + 1
   /\ LET e == Tr[l]
          t == IF e.e = "csend" THEN SendTags(e) ELSE IF e.e = "crecv" THEN RecvTags(e) ELSE {}
      IN /\ IF t = {} THEN TRUE ELSE PrintT(<< "PV", t, e.e, l, "client" >>)
         /\ cnt' = [cnt EXCEPT !.csend = IF e.e = "csend" THEN @ + 1 ELSE @,
                               !.crecv = IF e.e = "crecv" THEN @ + 1 ELSE @,
                               !.obf = IF e.e = "csend" /\ ~ClearFlag(e.hv.fl) THEN @ + 1 ELSE @]
Spec == Init /\ [][Next]_<< l, cnt >>
Done == IF l = N + 1 THEN PrintT(<< "CNT", cnt >>) ELSE TRUE
Final == TLCGet("stats").diameter - 1 = N \/ (PrintT(<< "SHORT", TLCGet("stats").diameter - 1, N >>) /\ FALSE)
=============================================================================
