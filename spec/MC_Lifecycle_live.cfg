SPECIFICATION LiveSpec
CONSTANTS
  Conns = {1, 2}
  MaxPkts = 1
  Defects = {}
  Record = FALSE
PROPERTY ShutdownCompletes
CHECK_DEADLOCK FALSE
