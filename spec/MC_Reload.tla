------------------------------ MODULE MC_Reload ------------------------------
EXTENDS Reload, Json, IOUtils, CSV
EmitFile == IF "EMIT_FILE" \in DOMAIN IOEnv THEN IOEnv.EMIT_FILE ELSE ""
Emit == IF EmitFile # "" /\ hist' # hist THEN CSVWrite("%1$s", << ToJson(hist') >>, EmitFile) ELSE TRUE
=============================================================================
