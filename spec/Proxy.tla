-------------------------------- MODULE Proxy --------------------------------
(* The line grammar of proxy/readerwriter.go Header.Write, as crypter.read uses it   *)
(* when the server runs with SetUseProxy(true): the octets up to and including the   *)
(* first 0 are handed to Write, which accepts them when they contain "PROXY", and -  *)
(* after a trailing CR LF NUL has been removed, if present - split at single spaces  *)
(* into exactly six chunks the second of which is tcp / tcp4 / tcp6 in any case.     *)
(* (Addresses and ports are not looked at; the parsed header is discarded.)          *)
EXTENDS Integers, Sequences, SequencesExt

PROXYw == << 80, 82, 79, 88, 89 >>
HasSub(s, w) == \E i \in 1..(Len(s) - Len(w) + 1) : SubSeq(s, i, i + Len(w) - 1) = w
TrimTail(s) == IF Len(s) >= 3 /\ SubSeq(s, Len(s) - 2, Len(s)) = << 13, 10, 0 >> THEN SubSeq(s, 1, Len(s) - 3) ELSE s
\* strings.Split(line, " "): chunks between single spaces (empty chunks count)
SplitSp(s) == LET f(acc, c) == IF c = 32 THEN Append(acc, <<>>) ELSE [acc EXCEPT ![Len(acc)] = Append(@, c)]
              IN FoldLeft(f, << <<>> >>, s)
Lower(c) == IF c \in 65..90 THEN c + 32 ELSE c
LowerSeq(s) == [i \in 1..Len(s) |-> Lower(s[i])]
Nets == { << 116, 99, 112 >>, << 116, 99, 112, 52 >>, << 116, 99, 112, 54 >> }
ProxyLineOK(line) ==
   /\ HasSub(line, PROXYw)
   /\ LET ch == SplitSp(TrimTail(line)) IN Len(ch) = 6 /\ LowerSeq(ch[2]) \in Nets
=============================================================================
