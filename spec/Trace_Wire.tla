------------------------------ MODULE Trace_Wire ------------------------------
(* Judges recorded encode/decode operations of the REAL codecs (harness/codec.go)   *)
(* with the RFC layouts of Wire.tla.  The harness never compares anything itself.   *)
(*                                                                                  *)
(*  "rt" : value -> MarshalBinary -> (bytes) -> UnmarshalBinary -> value            *)
(*  "df" : bytes -> UnmarshalBinary (spare capacity filled with a canary, under     *)
(*         recover, between two MemStats readings) -> MarshalBinary -> Unmarshal    *)
(*                                                                                  *)
(* C01  ok /\ Fits(v)            => bytes = Enc(v)                                  *)
(*      Dec(b) canonical & valid => decoder accepts and returns exactly Dec(b)      *)
(* C02  ok => Fits(v) /\ Valid(v) /\ decodes back to v (header: single-connect on 2)*)
(*      decode-first: ok => re-encodes, and that decodes to the same value          *)
(* C04  never panics; allocation bounded; a returned value is Valid and its         *)
(*      variable fields are the octets of the input that follow the length fields   *)
(* Model layer (DIV only): the decoder agrees with the implementation-shaped Impl_K *)
EXTENDS Integers, Sequences, FiniteSets, TLC, Json, IOUtils, Wire

Tr == ndJsonDeserialize(IOEnv.TRACE_FILE)
N == Len(Tr)

VARIABLES l, cnt
vars == << l, cnt >>

IsBody(k) == k \in Kinds \ {"Header"}
AsDecoded(k, v) == IF k = "Header" THEN HeaderAsDecoded(v) ELSE v

\* Go's SequenceNumber is 16 bits wide: a header value may carry seq > 255
FitsV(k, v) == Fits(k, v)

Tags(conds) == { c[2] : c \in { x \in conds : x[1] } }

\* variable part of a decoded body value, in wire order
VarPart(k, v) ==
   CASE k = "AuthenStart" -> v.user \o v.port \o v.raddr \o v.data
     [] k = "AuthenReply" -> v.msg \o v.data
     [] k = "AuthenContinue" -> v.msg \o v.data
     [] k = "AuthorRequest" -> v.user \o v.port \o v.raddr \o Flatten(v.args)
     [] k = "AuthorReply" -> v.msg \o v.data \o Flatten(v.args)
     [] k = "AcctRequest" -> v.user \o v.port \o v.raddr \o Flatten(v.args)
     [] k = "AcctReply" -> v.msg \o v.data
NArgs(k, v) == IF k \in {"AuthorRequest", "AuthorReply", "AcctRequest"} THEN Len(v.args) ELSE 0
\* the octets of b that follow the fixed part and the argument length octets
Inside(k, v, b) == LET off == FixedLen(k) + NArgs(k, v)  vp == VarPart(k, v) IN
   vp = <<>> \/ (off + Len(vp) <= Len(b) /\ vp = SubSeq(b, off + 1, off + Len(vp)))

AllocBound(n) == 4 * n + 65536 + 16384

RtTags(e) ==
   LET k == e.k  v == e.v  fits == FitsV(k, v)  valid == fits /\ Valid(k, v) IN
   Tags({ << e.panic, "C02" >>,
          << e.ok /\ fits /\ e.b # Enc(k, v), "C01" >>,
          << e.ok /\ ~fits, "C01" >>,                        \* bytes were produced for a value that has no RFC layout (a length field cannot hold it)
          << e.ok /\ ~(fits /\ valid), "C02" >>,
          << e.ok /\ ~e.ok2, "C02" >>,
          << e.ok /\ e.ok2 /\ fits /\ valid /\ e.v2 # AsDecoded(k, v), "C02" >> })

DfTags(e) ==
   LET k == e.k  b == e.b IN
   IF k = "Packet"
   THEN Tags({ << e.panic, "C04" >>,
               << e.alloc > AllocBound(Len(b)), "C04" >>,
               << e.ok /\ ~( Len(b) >= 12 /\ ValidHeader(e.v.hdr) /\ Len4Val(e.v.hdr.len) = Len(e.v.body)
                             /\ 12 + Len(e.v.body) <= Len(b) /\ e.v.body = SubSeq(b, 13, 12 + Len(e.v.body))
                             /\ e.v.hdr = AsDecoded("Header", DecHeader(b).v) ), "C04" >> })
   ELSE
   LET d == Dec(k, b)
       canon == d.ok /\ Valid(k, d.v)
   IN Tags({ << e.panic, "C04" >>,
             << e.alloc > AllocBound(Len(b)), "C04" >>,
             << canon /\ ~e.ok, "C01" >>,
             << canon /\ e.ok /\ e.v # AsDecoded(k, d.v), "C01" >>,
             << e.ok /\ ~Valid(k, e.v), "C04" >>,
             << e.ok /\ IsBody(k) /\ ~Inside(k, e.v, b), "C04" >>,
             << e.ok /\ e.ok2 /\ ~e.ok3, "C02" >>,
             << e.ok /\ e.ok2 /\ e.ok3 /\ e.v3 # e.v, "C02" >> })

\* re-encoding of a decoded value may only be refused if the value does not fit (never for body kinds:
\* whatever was decoded from octets fits the octet-wide length fields)
DfReenc(e) == IF e.k # "Packet" /\ e.ok /\ ~e.ok2 /\ "reenc" \in DOMAIN e /\ e.reenc THEN {"C02"} ELSE {}

\* model layer: the implementation-shaped decoder explains the outcome
DfModelOK(e) ==
   IF ~IsBody(e.k) THEN TRUE
   ELSE LET m == Impl(e.k, e.b) IN (e.ok <=> m.cls = "ok") /\ (e.ok => e.v = m.v)

Init == l = 1 /\ cnt = [rt |-> 0, encok |-> 0, df |-> 0, canon |-> 0, decok |-> 0]

Next ==
   /\ l <= N /\ l' = l + 1
   /\ LET e == Tr[l] IN
      IF e.e = "rt" THEN
         /\ LET t == RtTags(e) IN IF t = {} THEN TRUE ELSE PrintT(<< "PV", t, "rt", l, e.k >>)
         /\ cnt' = [cnt EXCEPT !.rt = @ + 1, !.encok = IF e.ok THEN @ + 1 ELSE @]
      ELSE IF e.e = "df" THEN
         /\ LET t == DfTags(e) \cup DfReenc(e) IN IF t = {} THEN TRUE ELSE PrintT(<< "PV", t, "df", l, e.k >>)
         /\ IF DfModelOK(e) THEN TRUE ELSE PrintT(<< "DIV", "df", l, e.k >>)
         /\ cnt' = [cnt EXCEPT !.df = @ + 1, !.decok = IF e.ok THEN @ + 1 ELSE @,
                               !.canon = IF e.k # "Packet" /\ Dec(e.k, e.b).ok /\ Valid(e.k, Dec(e.k, e.b).v) THEN @ + 1 ELSE @]
      ELSE cnt' = cnt

Spec == Init /\ [][Next]_vars
Done == IF l = N + 1 THEN PrintT(<< "CNT", cnt >>) ELSE TRUE
Final == TLCGet("stats").diameter - 1 = N \/ (PrintT(<< "SHORT", TLCGet("stats").diameter - 1, N >>) /\ FALSE)
=============================================================================
