INIT Init
NEXT Next
