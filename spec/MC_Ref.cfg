SPECIFICATION Spec
CONSTANTS
  Sids = {1, 2}
  MaxPkts = 4
VIEW View
ACTION_CONSTRAINT Emit
INVARIANTS NoViolation TranscriptMatchesState
CHECK_DEADLOCK FALSE
