--------------------------- MODULE Trace_LoaderConc ---------------------------
(* C15 (atomic reload w.r.t. lookups; published configurations never written again) on  *)
(* TLC schedules of LoaderConc.tla replayed on the real loader through gate hooks        *)
(* (harness/conc.go).  Each lookup's answer must be the answer of ONE configuration      *)
(* generation (Admission!Admit) that was in force at some moment of the lookup - never a *)
(* mixture of the filters of one generation and the providers of another.               *)
EXTENDS Integers, Sequences, FiniteSets, TLC, Json, IOUtils, Admission

Tr == ndJsonDeserialize(IOEnv.TRACE_FILE)
N == Len(Tr)
VARIABLES l, sc, gens, cur, building, lk, cnt
Get(f, k, d) == IF k \in DOMAIN f THEN f[k] ELSE d
Put(f, k, v) == [x \in DOMAIN f \cup {k} |-> IF x = k THEN v ELSE f[x]]
EmptyFn == [x \in {} |-> 0]

\* the answer generation g gives for address a: <<served?, key>>
Answer(g, a) == LET k == Admit(gens[g], a) IN IF k = 0 THEN << FALSE, <<>> >> ELSE << TRUE, gens[g].secrets[k].key >>

Init == l = 1 /\ sc = "" /\ gens = EmptyFn /\ cur = 1 /\ building = FALSE /\ lk = EmptyFn /\ cnt = [lookups |-> 0, overlapped |-> 0, scen |-> 0]
Next ==
   /\ l <= N /\ l' = l + 1
   /\ LET e == Tr[l] IN
      CASE e.e = "reset" -> sc' = e.sc /\ gens' = EmptyFn /\ cur' = 1 /\ building' = FALSE /\ lk' = EmptyFn /\ cnt' = [cnt EXCEPT !.scen = @ + 1]
        [] e.e = "gen" -> gens' = Put(gens, e.g, e.cfg) /\ UNCHANGED << sc, cur, building, lk, cnt >>
        [] e.e = "upd" -> /\ building' = (e.phase = "build")
                          /\ cur' = IF e.phase = "filters" THEN e.g ELSE cur
                          \* every lookup in flight may now also see the generation being installed
                          /\ lk' = [i \in DOMAIN lk |-> [lk[i] EXCEPT !.hi = IF e.g > @ THEN e.g ELSE @]]
                          /\ UNCHANGED << sc, gens, cnt >>
        [] e.e = "lk" /\ e.phase = "start" ->
                          /\ lk' = Put(lk, e.i, [addr |-> e.addr, lo |-> cur, hi |-> cur + (IF building THEN 1 ELSE 0)])
                          /\ UNCHANGED << sc, gens, cur, building, cnt >>
        [] e.e = "lk" /\ e.phase = "end" ->
                          /\ LET x == lk[e.i]
                                 allowed == { Answer(g, x.addr) : g \in { h \in x.lo..x.hi : h \in DOMAIN gens } }
                                 got == IF e.ok THEN << TRUE, e.key >> ELSE << FALSE, <<>> >>
                             IN IF got \in allowed THEN TRUE
                                ELSE IF x.lo = x.hi
                                     \* a lookup that met no reload: only the configuration in force may answer it (also C16: what a reload
                                     \* removed is gone for every lookup begun after it)
                                     THEN PrintT(<< "PV", {"C15", "C16"}, sc, l, "stale" >>)
                                     ELSE PrintT(<< "PV", {"C15"}, sc, l, "mixture" >>)
                          /\ cnt' = [cnt EXCEPT !.lookups = @ + 1, !.overlapped = IF lk[e.i].hi > lk[e.i].lo THEN @ + 1 ELSE @]
                          /\ UNCHANGED << sc, gens, cur, building, lk >>
        [] e.e = "immut" -> /\ (IF e.changed = <<>> THEN TRUE ELSE PrintT(<< "PV", {"C15"}, sc, l, "published-written" >>))
                            /\ UNCHANGED << sc, gens, cur, building, lk, cnt >>
        [] e.e = "offscript" -> PrintT(<< "DIV", sc, l, e.op >>) /\ UNCHANGED << sc, gens, cur, building, lk, cnt >>
        [] OTHER -> UNCHANGED << sc, gens, cur, building, lk, cnt >>
Spec == Init /\ [][Next]_<< l, sc, gens, cur, building, lk, cnt >>
Done == IF l = N + 1 THEN PrintT(<< "CNT", cnt >>) ELSE TRUE
Final == TLCGet("stats").diameter - 1 = N \/ (PrintT(<< "SHORT", TLCGet("stats").diameter - 1, N >>) /\ FALSE)
=============================================================================
