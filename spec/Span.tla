-------------------------------- MODULE Span --------------------------------
(* The SPAN handler (cmds/server/handlers/span.go) AS THE CODE HAS IT: a scope whose  *)
(* handler type is `span` answers every request that reaches the scope handler (the   *)
(* first packet of a session; continuations registered with Next bypass it) exactly   *)
(* as the START handler does, and additionally mirrors packets to a TCP destination:  *)
(*   1. one dial per such request; when the dial fails the request is handled by the  *)
(*      START handler alone and nothing is mirrored;                                  *)
(*   2. on the dialled connection first the request is written - the header as it     *)
(*      arrived (length field = body length, flags unchanged) followed by the CLEAR   *)
(*      body - then every reply the handlers write through the response object: the   *)
(*      reply header as it goes on the wire (SetPacketBody has filled in the length)  *)
(*      followed by the clear reply body (the first version of this module said       *)
(*      "length field 0": the real handler's traces were rejected, the model was      *)
(*      wrong);                                                                       *)
(*   3. each write goes through three filters: `switchAddr` (compared with the remote *)
(*      address of the mirror connection, i.e. the destination itself), `packetType`  *)
(*      (header type), `remAddr` (the rem-addr field of the first request layout of   *)
(*      the type the body decodes as; a body that has no such field passes. A reply   *)
(*      is looked at the same way: only a reply body that happens to decode as a      *)
(*      request layout of its type can be held back);                                 *)
(*   4. the connection is not closed by the handler (the goroutine that is to close   *)
(*      it ranges over the Done channel of the request's context and falls out of the *)
(*      loop without running its body when that channel is closed).                   *)
(* None of the listed properties speaks about the mirror: a disagreement between this *)
(* module and the real handler is a model divergence (DIV), never a violation.  What  *)
(* the listed properties do demand of a span scope - one reply per request, replies   *)
(* mirroring the request, session isolation, no crash - is judged by the unchanged    *)
(* predicates of Trace_Ref on scenarios whose configuration selects this handler.     *)
EXTENDS Integers, Sequences, Handlers

\* sp = [dest |-> "ok" | "refused", pt |-> 0..3, ra |-> octets, sw |-> "" | "match" | "mismatch"]
NoSpan == [dest |-> "none", pt |-> 0, ra |-> <<>>, sw |-> ""]
SpanDials(sp) == sp.dest \in {"ok", "refused"}
SpanMirrors(sp) == sp.dest = "ok"

PassSwitch(sp) == sp.sw # "mismatch"
PassType(sp, ty) == sp.pt = 0 \/ sp.pt = ty
\* Request.Fields(): the first layout of the header type that decodes supplies the fields
RemAddrField(ty, b) ==
   CASE ty = 1 -> IF AsStart(b).cls = "ok" THEN [found |-> TRUE, v |-> AsStart(b).v.raddr] ELSE [found |-> FALSE, v |-> <<>>]
     [] ty = 2 -> IF AsAuthor(b).cls = "ok" THEN [found |-> TRUE, v |-> AsAuthor(b).v.raddr] ELSE [found |-> FALSE, v |-> <<>>]
     [] ty = 3 -> IF AsAcct(b).cls = "ok" THEN [found |-> TRUE, v |-> AsAcct(b).v.raddr] ELSE [found |-> FALSE, v |-> <<>>]
     [] OTHER -> [found |-> FALSE, v |-> <<>>]
PassRemAddr(sp, ty, b) == sp.ra = <<>> \/ ~RemAddrField(ty, b).found \/ RemAddrField(ty, b).v = sp.ra

\* octets the mirror connection of one request receives: hdr = the request's 12 header octets, b its clear body,
\* reps = the replies written for it, each << 12 header octets as on the wire, clear body >>
MirrorRequest(sp, ty, hdr, b) == IF PassSwitch(sp) /\ PassType(sp, ty) /\ PassRemAddr(sp, ty, b) THEN hdr \o b ELSE <<>>
MirrorReply(sp, rep) == IF PassSwitch(sp) /\ PassType(sp, rep[1][2]) /\ PassRemAddr(sp, rep[1][2], rep[2]) THEN rep[1] \o rep[2] ELSE <<>>
RECURSIVE MirrorReplies(_, _)
MirrorReplies(sp, reps) == IF reps = <<>> THEN <<>> ELSE MirrorReply(sp, Head(reps)) \o MirrorReplies(sp, Tail(reps))
MirrorStream(sp, ty, hdr, b, reps) == MirrorRequest(sp, ty, hdr, b) \o MirrorReplies(sp, reps)
=============================================================================
