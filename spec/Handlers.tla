------------------------------- MODULE Handlers -------------------------------
(* The reference AAA handlers (cmds/server/handlers, config/aaa.go, bcrypt, local    *)
(* accounter) as functions: given the users of the connection's scope, the state a   *)
(* session's continuation carries, and a request (header + clear body), the single   *)
(* reply and the next continuation.  Implementation shaped (see DESIGN.md appendix   *)
(* A); "decodes as K" is Wire!Impl(K, body).cls = "ok".                              *)
(*                                                                                   *)
(* A reply is [st, fl, msg, anymsg, args, anyargs, nx, sink]:                        *)
(*   st status octet, fl flags octet (authentication), msg server message (ignored   *)
(*   when anymsg), args (authorization; ignored when anyargs), nx the continuation   *)
(*   state kept for the session ([k |-> "none"] = session finished), sink = an       *)
(*   accounting record is handed to the sink before the reply.                       *)
EXTENDS Integers, Sequences, FiniteSets, TLC, Wire, Msgs, Admission

NoH == [k |-> "none", user |-> <<>>]
H(k, u) == [k |-> k, user |-> u]

Rep(st, fl, msg, nx) == [st |-> st, fl |-> fl, msg |-> msg, anymsg |-> FALSE, args |-> <<>>, anyargs |-> FALSE, anyst |-> FALSE, nx |-> nx, sink |-> FALSE, via |-> "none"]
RepAny(st, nx) == [Rep(st, 0, <<>>, nx) EXCEPT !.anymsg = TRUE]

\* ---- configuration view --------------------------------------------------
NoAuth == [k |-> "none", pw |-> <<>>]
EffAuth(u) == IF u.auth.k # "none" THEN u.auth
              ELSE LET gi == { i \in 1..Len(u.groups) : u.groups[i].auth.k # "none" } IN
                   IF gi = {} THEN NoAuth ELSE u.groups[CHOOSE i \in gi : \A j \in gi : i <= j].auth
EffAcct(u) == u.acct \/ \E i \in 1..Len(u.groups) : u.groups[i].acct
\* which accounter: the user's own, else that of the first group that has one ("file" = log-backed, "syslog")
AcctKind(u) == IF u.acct THEN u.acctk
               ELSE LET gi == { i \in 1..Len(u.groups) : u.groups[i].acct } IN
                    IF gi = {} THEN "none" ELSE u.groups[CHOOSE i \in gi : \A j \in gi : i <= j].acctk
\* the user entry a name denotes in a scope: the last entry with that name (later entries overwrite), or none
UserIdx(cfg, scope, name) == { i \in ScopeUserIdx(cfg, scope) : cfg.users[i].name = name }
HasUser(cfg, scope, name) == UserIdx(cfg, scope, name) # {}
TheUser(cfg, scope, name) == LET s == UserIdx(cfg, scope, name) IN cfg.users[CHOOSE i \in s : \A j \in s : i >= j]

\* ---- body views ----------------------------------------------------------
AsStart(b) == Impl("AuthenStart", b)
AsCont(b)  == Impl("AuthenContinue", b)
AsAuthor(b) == Impl("AuthorRequest", b)
AsAcct(b)  == Impl("AcctRequest", b)
Abort(b) == AsCont(b).cls = "ok" /\ HasBit(AsCont(b).v.flags, 1)
Bracket(pfx, u) == pfx \o u \o << 93 >>                   \* "...[" user "]"

\* ---- authenticators ------------------------------------------------------
\* bcrypt compares at most the first 72 octets of a password
Trunc72(p) == IF Len(p) > 72 THEN SubSeq(p, 1, 72) ELSE p
PasswordOf(b) == IF AsStart(b).cls = "ok" THEN [ok |-> TRUE, pw |-> AsStart(b).v.data]
                 ELSE IF AsCont(b).cls = "ok" THEN [ok |-> TRUE, pw |-> AsCont(b).v.msg]
                 ELSE [ok |-> FALSE, pw |-> <<>>]
Authenticate(u, b) ==
   LET a == EffAuth(u) IN
   IF a.k \in {"none", "unknown"} THEN Rep(2, 0, MAuthDenied, NoH)           \* default authenticator
   ELSE LET p == PasswordOf(b) IN
        IF ~p.ok THEN Rep(7, 0, MMissingPassword, NoH)
        ELSE IF a.k = "bcrypt" /\ Trunc72(p.pw) = Trunc72(a.pw) THEN Rep(1, 0, <<>>, NoH)
        ELSE Rep(2, 0, MLoginFailure, NoH)                                      \* wrong password, bad hex, no keychain entry

\* ---- ASCII login ---------------------------------------------------------
GetPassReply(u) == Rep(5, 1, MPassword, H("A3", u))
A2(cfg, scope, user, b) ==
   IF Abort(b) THEN Rep(2, 0, MAbort, NoH)
   ELSE IF user = <<>>
        THEN IF AsCont(b).cls # "ok" THEN Rep(7, 0, MExpGetUser, NoH)
             ELSE IF AsCont(b).v.msg = <<>> THEN Rep(7, 0, MMissingUserMsg, NoH)
             ELSE GetPassReply(AsCont(b).v.msg)
        ELSE GetPassReply(user)
A1(cfg, scope, user, b) ==
   IF Abort(b) THEN Rep(2, 0, MAbort, NoH)
   ELSE IF user = <<>> THEN Rep(4, 0, MUsername, H("A2", <<>>))
   ELSE A2(cfg, scope, user, b)
A3(cfg, scope, user, b) ==
   IF Abort(b) THEN Rep(2, 0, MAbort, NoH)
   ELSE IF AsCont(b).cls # "ok" THEN Rep(7, 0, MExpGetPass, NoH)
   ELSE IF AsCont(b).v.msg = <<>> THEN Rep(2, 0, MUnknownUserPw, NoH)
   \* a user name that came in a CONTINUE may be too long to be quoted in a server message (length field of two octets):
   \* the reply then goes out without it (fix 44025ee; before it the request got no reply at all)
   ELSE IF ~HasUser(cfg, scope, user) THEN (IF Len(Bracket(MAuthDeniedPfx, user)) > 65535 THEN Rep(2, 0, MAuthDenied, NoH)
                                            ELSE Rep(2, 0, Bracket(MAuthDeniedPfx, user), NoH))
   ELSE Authenticate(TheUser(cfg, scope, user), b)

\* ---- PAP -----------------------------------------------------------------
P1(cfg, scope, b) ==
   LET s == AsStart(b).v IN
   IF s.user = <<>> THEN Rep(7, 0, MMissingUsername, NoH)
   ELSE IF s.data = <<>> THEN Rep(2, 0, MMissingPassword, NoH)
   ELSE IF ~HasUser(cfg, scope, s.user) THEN Rep(2, 0, Bracket(MAuthDeniedPfx, s.user), NoH)
   ELSE Authenticate(TheUser(cfg, scope, s.user), b)

AuthenEntry(cfg, scope, hdr, b) ==
   IF AsStart(b).cls # "ok" THEN RepAny(7, NoH)                               \* "expected authenticate start packet for sessionID [n]"
   ELSE LET s == AsStart(b).v IN
        IF s.action = 1 /\ s.atype = 1 /\ hdr.min = 0 THEN A1(cfg, scope, s.user, b)
        ELSE IF s.action = 1 /\ s.atype = 2 /\ hdr.min = 1 THEN P1(cfg, scope, b)
        ELSE Rep(7, 0, MUnknownStart, NoH)

\* ---- authorization (the policy itself is Authz.tla; plugged in by the trace spec) ----
AuthorEntry(cfg, scope, hdr, b) ==
   IF AsAuthor(b).cls # "ok" THEN Rep(17, 0, MInvalidAuthor, NoH)
   ELSE LET q == AsAuthor(b).v IN
        IF ~HasUser(cfg, scope, q.user) THEN Rep(16, 0, Bracket(MAuthorDeniedPfx, q.user), NoH)
        ELSE [Rep(0, 0, <<>>, NoH) EXCEPT !.anyst = TRUE, !.anymsg = TRUE, !.anyargs = TRUE]

\* ---- accounting ----------------------------------------------------------
AcctEntry(cfg, scope, hdr, b) ==
   IF AsAcct(b).cls # "ok" THEN Rep(2, 0, MExpAcct, NoH)
   ELSE LET k == AsAcct(b).v IN
        IF ~HasUser(cfg, scope, k.user) THEN Rep(2, 0, MAcctLookupPfx \o k.user \o MAcctLookupSfx, NoH)
        \* no accounter, or one of a type no factory is registered for (the loader leaves the default: denied)
        ELSE IF ~EffAcct(TheUser(cfg, scope, k.user)) \/ AcctKind(TheUser(cfg, scope, k.user)) = "stderr" THEN Rep(2, 0, MAcctDenied, NoH)
        ELSE LET r == CASE k.flags = 2 -> Rep(1, 0, MAcctStart, NoH)
                        [] k.flags = 4 -> Rep(1, 0, MAcctStop, NoH)
                        [] k.flags = 8 -> IF hdr.seq = 1 THEN Rep(1, 0, MAcctWatchdog, NoH) ELSE Rep(2, 0, MAcctBadSeq, NoH)
                        [] k.flags = 10 -> IF hdr.seq >= 3 THEN Rep(1, 0, MAcctWatchdogUpd, NoH) ELSE Rep(2, 0, MAcctBadSeq, NoH)
                        [] OTHER -> Rep(2, 0, MAcctBadFlag, NoH)
             IN [r EXCEPT !.sink = TRUE, !.via = AcctKind(TheUser(cfg, scope, k.user))]

\* ---- dispatch: the session's continuation if it has one, else the entry handler by packet type ----
Handle(cfg, scope, h, hdr, b) ==
   CASE h.k = "A2" -> A2(cfg, scope, h.user, b)
     [] h.k = "A3" -> A3(cfg, scope, h.user, b)
     [] OTHER -> CASE hdr.ty = 1 -> AuthenEntry(cfg, scope, hdr, b)
                   [] hdr.ty = 2 -> AuthorEntry(cfg, scope, hdr, b)
                   [] hdr.ty = 3 -> AcctEntry(cfg, scope, hdr, b)

----------------------------------------------------------------------------
(* C10, stated on the transcript of a session (independent of the handler structure):  *)
(* t = [stage, user]: what the server has asked for so far, as seen in its replies.     *)
\* aok: the session was opened by a START the ASCII login accepts (action LOGIN, type ASCII, minor version 0)
T0 == [stage |-> "idle", user |-> <<>>, aok |-> FALSE]
AsciiStartOK(hdr, b) == hdr.ty = 1 /\ AsStart(b).cls = "ok" /\ AsStart(b).v.action = 1 /\ AsStart(b).v.atype = 1 /\ hdr.min = 0
\* a request whose body parses under two request layouts is left to the ambiguity rule
Ambiguous(b) == AsStart(b).cls = "ok" /\ AsCont(b).cls = "ok"
CredentialOK(cfg, scope, user, pw) ==
   /\ user # <<>> /\ pw # <<>> /\ HasUser(cfg, scope, user)
   /\ LET a == EffAuth(TheUser(cfg, scope, user)) IN a.k = "bcrypt" /\ Trunc72(pw) = Trunc72(a.pw)
MayPass(cfg, scope, t, hdr, b) ==
   \/ /\ t.stage = "idle" /\ hdr.ty = 1 /\ AsStart(b).cls = "ok"
      /\ LET s == AsStart(b).v IN s.action = 1 /\ s.atype = 2 /\ hdr.min = 1 /\ CredentialOK(cfg, scope, s.user, s.data)
   \/ /\ t.stage = "asked_pass" /\ t.aok /\ AsCont(b).cls = "ok" /\ ~Abort(b)
      /\ CredentialOK(cfg, scope, t.user, AsCont(b).v.msg)
\* the password a request presents (C18): the user message answering GETPASS, or the data field of a PAP START
PwOfReq(t, hdr, b) ==
   \* (layout only: a password need not pass the field validation to be a password)
   IF t.stage = "asked_pass" /\ DecAuthenContinue(b).ok THEN DecAuthenContinue(b).v.msg
   ELSE IF t.stage = "idle" /\ hdr.ty = 1 /\ DecAuthenStart(b).ok /\ DecAuthenStart(b).v.atype = 2 THEN DecAuthenStart(b).v.data
   ELSE <<>>
\* transcript update from an observed reply (status, to request b in stage t)
TNext(t, hdr, b, status) ==
   LET aok == IF t.stage = "idle" THEN AsciiStartOK(hdr, b) ELSE t.aok IN
   IF status = 4 THEN [stage |-> "asked_user", user |-> <<>>, aok |-> aok]
   ELSE IF status = 5
        THEN [stage |-> "asked_pass", aok |-> aok,
              user |-> IF t.stage = "idle" /\ AsStart(b).cls = "ok" THEN AsStart(b).v.user
                       ELSE IF t.stage = "asked_user" /\ AsCont(b).cls = "ok" THEN AsCont(b).v.msg
                       ELSE t.user]
        ELSE T0
=============================================================================
