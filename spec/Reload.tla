-------------------------------- MODULE Reload --------------------------------
(* Configuration (re)loading: yaml.go / json.go Unmarshal + Load, loader.go updates(). *)
(* A loader instance is fed a history of documents.  A document that parses and has    *)
(* the minimum content (>= 1 secret, >= 1 user) is published; its published value is   *)
(* Fresh(d): what a freshly constructed loader publishes for d - nothing of earlier    *)
(* documents.  Published values are never modified; a failed load publishes nothing.   *)
EXTENDS Integers, Sequences, SequencesExt, FiniteSets, TLC

CONSTANTS Docs,          \* document identifiers
          Parses,        \* subset of Docs that parse
          MinOK,         \* subset of Docs with the minimum content
          MaxLoads

VARIABLES hist,          \* documents fed so far
          published,     \* sequence of [doc, val]: what the loader handed out, in order
          current        \* what is in force: the last published value (or "none")
vars == << hist, published, current >>

Good(d) == d \in Parses /\ d \in MinOK
Fresh(d) == << "config-of", d >>            \* abstract: a function of the document alone

Init == hist = <<>> /\ published = <<>> /\ current = << "none" >>
Load(d) ==
   /\ Len(hist) < MaxLoads
   /\ hist' = Append(hist, d)
   /\ IF Good(d)
      THEN published' = Append(published, [doc |-> d, val |-> Fresh(d)]) /\ current' = Fresh(d)
      ELSE UNCHANGED << published, current >>
Next == \E d \in Docs : Load(d)
Spec == Init /\ [][Next]_vars

\* ---- properties ------------------------------------------------------------
GoodIdx == { i \in 1..Len(hist) : Good(hist[i]) }
LastGood == IF GoodIdx = {} THEN << "none" >> ELSE Fresh(hist[CHOOSE i \in GoodIdx : \A j \in GoodIdx : i >= j])
ReloadEqualsFresh == current = LastGood
PublishedOnlyGrows == [][IsPrefix(published, published')]_vars
PublishedMatchesHistory == Len(published) = Cardinality(GoodIdx) /\ \A k \in 1..Len(published) : published[k].val = Fresh(published[k].doc)
=============================================================================
