-------------------------------- MODULE Reload --------------------------------
(* Configuration (re)loading: yaml.go / json.go Unmarshal + Load, loader.go updates(). *)
(* A loader instance is fed a history of documents.  A document that parses and has    *)
(* the minimum content (>= 1 secret, >= 1 user) is published; its published value is   *)
(* Fresh(d): what a freshly constructed loader publishes for d - nothing of earlier    *)
(* documents.  Published values are never modified; a failed load publishes nothing.   *)
EXTENDS Integers, Sequences, SequencesExt, FiniteSets, TLC

CONSTANTS Docs,          \* document identifiers
          Parses,        \* subset of Docs that parse
          MinOK,         \* subset of Docs with the minimum content
          MaxLoads,
          ChanCap        \* capacity of the channel between the file loader and the update loop (1 in yaml.go / json.go)

VARIABLES hist,          \* documents fed so far
          published,     \* sequence of [doc, val]: what the file loader handed out, in order
          current,       \* the last published value (or "none")
          chan,          \* published values the update loop of loader.Loader has not taken yet
          inforce,       \* what the update loop last installed (providers + filters): what lookups are answered from
          ninst          \* number of installs so far
vars == << hist, published, current, chan, inforce, ninst >>

Good(d) == d \in Parses /\ d \in MinOK
Fresh(d) == << "config-of", d >>            \* abstract: a function of the document alone

Init == hist = <<>> /\ published = <<>> /\ current = << "none" >> /\ chan = <<>> /\ inforce = << "none" >> /\ ninst = 0
\* Unmarshal / Load(path): a good document is SENT on the channel - the send blocks while the channel is full, it is
\* never dropped and never overtakes; a bad document is refused and nothing is sent.
Load(d) ==
   /\ Len(hist) < MaxLoads
   /\ Good(d) => Len(chan) < ChanCap
   /\ hist' = Append(hist, d)
   /\ IF Good(d)
      THEN published' = Append(published, [doc |-> d, val |-> Fresh(d)]) /\ current' = Fresh(d)
           /\ chan' = Append(chan, Fresh(d))
      ELSE UNCHANGED << published, current, chan >>
   /\ UNCHANGED << inforce, ninst >>
\* loader.go updates(): take the next value, build providers and filters from IT ALONE, replace what was in force
Install ==
   /\ chan # <<>>
   /\ inforce' = Head(chan) /\ chan' = Tail(chan) /\ ninst' = ninst + 1
   /\ UNCHANGED << hist, published, current >>
Next == (\E d \in Docs : Load(d)) \/ Install
Spec == Init /\ [][Next]_vars /\ WF_vars(Install)

\* ---- properties ------------------------------------------------------------
GoodIdx == { i \in 1..Len(hist) : Good(hist[i]) }
LastGood == IF GoodIdx = {} THEN << "none" >> ELSE Fresh(hist[CHOOSE i \in GoodIdx : \A j \in GoodIdx : i >= j])
ReloadEqualsFresh == current = LastGood
PublishedOnlyGrows == [][IsPrefix(published, published')]_vars
\* the pipeline loses nothing and reorders nothing; once drained, lookups are answered from the last good document
PipelineExact == ninst + Len(chan) = Len(published)
                 /\ \A k \in 1..Len(chan) : chan[k] = published[ninst + k].val
                 /\ inforce = (IF ninst = 0 THEN << "none" >> ELSE published[ninst].val)
DrainedEqualsFresh == chan = <<>> => inforce = LastGood
EventuallyInForce == <>[](inforce = current) \/ []<>(Len(hist) < MaxLoads)
PublishedMatchesHistory == Len(published) = Cardinality(GoodIdx) /\ \A k \in 1..Len(published) : published[k].val = Fresh(published[k].doc)
=============================================================================
