SPECIFICATION Spec
CONSTANTS
  MaxB = 2
  MaxP = 2
INVARIANTS DeliveredIsPrefix FinalMatches NoShortPacket
CHECK_DEADLOCK FALSE
