-------------------------------- MODULE MC_Ref --------------------------------
(* Design check of the reference handlers (Handlers.tla) as a state machine: every     *)
(* history of requests from a concrete packet alphabet, multiplexed over the sessions  *)
(* of one connection, against one configuration that contains every authenticator       *)
(* arrangement.  Invariants: C10 (PASS exactly when MayPass, on the session's own       *)
(* transcript), C09 at model level (a session's reply is a function of its own history),*)
(* C07 (Handle is total: exactly one reply record for every request in every state).    *)
(* Also the emitter of replay scripts: one per explored transition.                     *)
EXTENDS Handlers, Json, IOUtils, CSV

CONSTANTS Sids, MaxPkts

a == << 97 >>   b == << 98 >>   c == << 99 >>   d == << 100 >>   x == << 120 >>
pa == << 112, 97 >>   pb == << 112, 98 >>   pc == << 112, 99 >>   zz == << 122, 122 >>

NoA == [k |-> "none", pw |-> <<>>]
Grp(n, au) == [name |-> n, auth |-> au, acct |-> FALSE, acctk |-> "file", commands |-> <<>>, services |-> <<>>]
Usr(n, au, ac, gs) == [name |-> n, scopes |-> << "s1" >>, auth |-> au, acct |-> ac, acctk |-> "file", groups |-> gs, commands |-> <<>>, services |-> <<>>]
Cfg == [secrets |-> << [name |-> "s1", nameb |-> << 115, 49 >>, key |-> << 107 >>, prefixes |-> << [s |-> "10.0.0.0/8", ip |-> << 10, 0, 0, 0 >>, bits |-> 8] >>, nohandler |-> FALSE] >>,
        users |-> << Usr(a, [k |-> "bcrypt", pw |-> pa], TRUE, <<>>),
                     Usr(b, NoA, FALSE, << Grp(<< 48 >>, NoA), Grp(<< 49 >>, [k |-> "bcrypt", pw |-> pb]), Grp(<< 50 >>, [k |-> "bcrypt", pw |-> pc]) >>),
                     Usr(c, NoA, FALSE, <<>>),
                     Usr(d, [k |-> "badhex", pw |-> <<>>], FALSE, <<>>) >>,
        deny |-> <<>>, allow |-> <<>>]

St(action, atype, user, data) == EncAuthenStart([action |-> action, priv |-> 1, atype |-> atype, service |-> 1, user |-> user, port |-> << 116 >>, raddr |-> <<>>, data |-> data])
Ct(msg, flags) == EncAuthenContinue([flags |-> flags, msg |-> msg, data |-> <<>>])
Au(user) == EncAuthorRequest([method |-> 6, priv |-> 1, atype |-> 1, service |-> 1, user |-> user, port |-> <<>>, raddr |-> <<>>, args |-> << << 115, 101, 114, 118, 105, 99, 101, 61, 120 >> >>])
Ac(user, fl) == EncAcctRequest([flags |-> fl, method |-> 6, priv |-> 1, atype |-> 1, service |-> 1, user |-> user, port |-> <<>>, raddr |-> <<>>, args |-> <<>>])
P(ty, min, body) == [ty |-> ty, min |-> min, b |-> body]

Alphabet ==
   { P(1, 0, St(1, 1, u, <<>>)) : u \in {<<>>, a, b, c, x} }                      \* ASCII START, user given or not
   \cup { P(1, 1, St(1, 1, a, <<>>)), P(1, 0, St(2, 1, a, <<>>)), P(1, 1, St(1, 3, a, pa)) }   \* wrong minor / action / CHAP
   \cup { P(1, 1, St(1, 2, u, p)) : u \in {a, b, d, x}, p \in {pa, pb, pc, <<>>} }  \* PAP
   \cup { P(1, 0, St(1, 2, a, pa)), P(1, 1, St(1, 2, <<>>, pa)) }                   \* PAP with minor 0, PAP without user
   \cup { P(1, 0, Ct(m, 0)) : m \in {<<>>, a, b, c, d, x, pa, pb, pc, zz} }
   \cup { P(1, 0, Ct(pa, 1)), P(1, 0, Ct(<<>>, 1)) }                                \* abort
   \cup { P(1, 0, <<>>), P(1, 0, << 1, 2, 3 >>), P(2, 0, Ct(pa, 0)), P(3, 0, St(1, 1, a, <<>>)) }   \* junk, bodies under the wrong packet type
   \cup { P(2, 0, Au(a)), P(2, 0, Au(x)), P(3, 0, Ac(a, 2)), P(3, 0, Ac(a, 8)), P(3, 0, Ac(a, 12)), P(3, 0, Ac(c, 2)), P(3, 0, Ac(x, 2)) }

VARIABLES hs, t, seq, npk, viol, script
vars == << hs, t, seq, npk, viol, script >>
Hdr(s, p) == [maj |-> 12, min |-> p.min, ty |-> p.ty, seq |-> seq[s], fl |-> 1, sid |-> << 0, 0, 0, s >>, len |-> ToLen4(Len(p.b))]

Init == hs = [s \in Sids |-> NoH] /\ t = [s \in Sids |-> T0] /\ seq = [s \in Sids |-> 1] /\ npk = 0 /\ viol = {} /\ script = <<>>

Send(s, p) ==
   /\ npk < MaxPkts /\ seq[s] < 250
   /\ LET h == Hdr(s, p)
          r == Handle(Cfg, "s1", hs[s], h, p.b)
          may == MayPass(Cfg, "s1", t[s], h, p.b)
          amb == Ambiguous(p.b)
          authen == p.ty = 1 \/ hs[s].k # "none"      \* the reply is an authentication reply
      IN /\ hs' = [hs EXCEPT ![s] = r.nx]
         /\ t' = [t EXCEPT ![s] = IF authen /\ ~r.anyst THEN TNext(t[s], h, p.b, r.st) ELSE T0]
         /\ viol' = viol \cup (IF authen /\ ~r.anyst /\ ~amb /\ r.st = 1 /\ ~may THEN {"C10-sound"} ELSE {})
                         \cup (IF p.ty = 1 /\ ~r.anyst /\ ~amb /\ may /\ r.st # 1 THEN {"C10-complete"} ELSE {})
                         \cup (IF r.nx.k # "none" /\ r.st \notin {4, 5} THEN {"C07-continuation-without-prompt"} ELSE {})
         \* a session that got a final reply starts again from sequence number 1
         /\ seq' = [seq EXCEPT ![s] = IF r.nx.k = "none" THEN 1 ELSE @ + 2]
   /\ npk' = npk + 1
   /\ script' = Append(script, [sid |-> s, ty |-> p.ty, min |-> p.min, seq |-> seq[s], b |-> p.b])

Next == \E s \in Sids, p \in Alphabet : Send(s, p)
Spec == Init /\ [][Next]_vars
View == << hs, t, seq, viol >>
NoViolation == viol = {}
\* transcript and continuation agree: the server waits for a password exactly when it holds the A3 continuation for that user
TranscriptMatchesState == \A s \in Sids : /\ ((t[s].stage = "asked_pass") <=> (hs[s].k = "A3"))
                                           /\ ((t[s].stage = "asked_user") <=> (hs[s].k = "A2"))
                                           /\ (hs[s].k = "A3" => hs[s].user = t[s].user)
EmitFile == IF "EMIT_FILE" \in DOMAIN IOEnv THEN IOEnv.EMIT_FILE ELSE ""
Emit == IF EmitFile # "" /\ script' # script THEN CSVWrite("%1$s", << ToJson(script') >>, EmitFile) ELSE TRUE
=============================================================================
