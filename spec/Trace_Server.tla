----------------------------- MODULE Trace_Server -----------------------------
(* Trace validation for the connection state machine.                               *)
(*                                                                                  *)
(* Input: an ndjson trace recorded from the REAL tacquito.Server driven over        *)
(* scripted in-memory connections (harness/chaos.go): black-box observations        *)
(* (feed, inv, reg, wr, rdblock, cl, g) and hook events (read, get, set, rseq,      *)
(* post, del, upd, sclose).  Many scenarios are chained by "reset" events.          *)
(*                                                                                  *)
(* Two layers (DESIGN.md 1.2):                                                      *)
(*  - observation layer `o`: updated from the event alone; the listed properties    *)
(*    C06 C07 C08 C19 C20 (and the delivery part of C03/C05) are evaluated on it    *)
(*    with the predicates of Server.tla / Wire.tla / Crypt.tla.  A predicate that   *)
(*    is false is a fact about what the real code did: reported as "PV" lines.      *)
(*  - model layer: the actions of Server.tla bound to the events; when the code     *)
(*    stops following the model the scenario is marked diverged ("DIV" line) and    *)
(*    only the observation layer continues.                                         *)
EXTENDS Integers, Sequences, FiniteSets, TLC, Json, IOUtils, Wire, Crypt

Tr == ndJsonDeserialize(IOEnv.TRACE_FILE)
N == Len(Tr)
TDefects == IF "DEFECTS" \in DOMAIN IOEnv /\ IOEnv.DEFECTS # ""
            THEN {IOEnv.DEFECTS} ELSE {}     \* at most one switch is needed when replaying old trees

FeedIdx == {i \in 1..N : Tr[i].e = "feed"}
TSID == TLCEval({SubSeq(Tr[i].h, 5, 8) : i \in {j \in FeedIdx : Len(Tr[j].h) >= 8}} \cup {<<0,0,0,0>>})

VARIABLES conn, pc, inbox, cur, known, hnd, resp, gSess, gHand, wrote, npk, hi, regd, viol, script
S == INSTANCE Server WITH SID <- TSID, Defects <- TDefects, Packets <- {}

VARIABLES l,        \* next event to consume
          div,      \* model layer abandoned for the current scenario
          sc,       \* scenario id, key of the connection
          key,
          lf,       \* index of the last feed event
          nw,       \* wr events consumed since the last feed
          o         \* observation layer
tvars == << l, div, sc, key, lf, nw, o >>
mvars == << conn, pc, inbox, cur, known, hnd, resp, gSess, gHand, wrote, npk, hi, regd, viol, script >>

----------------------------------------------------------------------------
\* what a feed event means
HdrOf(e) == DecHeader(e.h).v                       \* only when Len(e.h) = 12
FullHeader(e) == Len(e.h) = 12
Oversize(e) == ~Len4Small(SubSeq(e.h, 9, 12))
DeclLen(e) == Len4Val(SubSeq(e.h, 9, 12))
FullPacket(e) == FullHeader(e) /\ ~Oversize(e) /\ Len(e.b) = DeclLen(e)
Ver(h) == h.maj * 16 + h.min
ClearBody(k, e) == LET h == HdrOf(e) IN FromWire(k, h.sid, Ver(h), h.seq, h.fl, e.b)

\* De-obfuscation costs one MD5 per 16 octets in plain TLA+, so it is done once per packet, when
\* TLC pre-evaluates these constant tables (events carry the connection's key as "sk").
ClrTab0 == TLCEval([i \in FeedIdx |-> IF FullPacket(Tr[i]) THEN ClearBody(Tr[i].sk, Tr[i]) ELSE <<>>])
WrIdx == {i \in 1..N : Tr[i].e = "wr"}
WrLenOK(b) == Len(b) >= 12 /\ Len4Small(SubSeq(b, 9, 12)) /\ Len4Val(SubSeq(b, 9, 12)) = Len(b) - 12
WClrTab0 == TLCEval([i \in WrIdx |-> LET b == Tr[i].b IN
              IF WrLenOK(b) THEN LET w == DecHeader(Take(b, 12)).v IN FromWire(Tr[i].sk, w.sid, Ver(w), w.seq, w.fl, Drop(b, 12))
              ELSE <<>>])

ASSUME TLCSet(11, ClrTab0) /\ TLCSet(12, WClrTab0)
ClrTab == TLCGet(11)
WClrTab == TLCGet(12)

\* reader class as the implementation-shaped model sees it (crypt.go read(): order of the tests)
RdClass(i, e) ==
   IF ~FullHeader(e) THEN "short"
   ELSE IF Oversize(e) THEN "oversize"
   ELSE IF Len(e.b) < DeclLen(e) THEN "short"
   ELSE IF ~ValidHeader(HdrOf(e)) THEN "badhdr"
   ELSE IF ~ClearFlag(HdrOf(e).fl) /\ ImplBadSecret(HdrOf(e).ty, ClrTab[i]) THEN "mismatch"
   ELSE "ok"

\* RESTART exists only for authentication replies: elsewhere the harness handler sends an ordinary reply
NormOps(ty, ops) == [k \in 1..Len(ops) |-> IF ops[k] = "restart" /\ ty # 1 THEN "reply" ELSE ops[k]]
PktOf(i, e) == IF FullHeader(e)
   THEN LET h == HdrOf(e) IN [sid |-> h.sid, seq |-> h.seq, ty |-> h.ty, min |-> h.min, fl |-> h.fl, rd |-> RdClass(i, e), ops |-> NormOps(h.ty, e.ops)]
   ELSE [sid |-> <<0,0,0,0>>, seq |-> 0, ty |-> 0, min |-> 0, fl |-> 0, rd |-> "short", ops |-> e.ops]

\* header record of a written packet, in the shape of Server!wrote entries
WHdr(b) == LET h == DecHeader(Take(b, 12)).v IN [sid |-> h.sid, ty |-> h.ty, min |-> h.min, fl |-> h.fl, seq |-> h.seq]
SameHdr(w, m) == w.sid = m.sid /\ w.ty = m.ty /\ w.min = m.min /\ w.fl = m.fl /\ w.seq = m.seq

----------------------------------------------------------------------------
\* observation layer

NoReq == [sid |-> <<0,0,0,0>>, seq |-> 0, ty |-> 0, min |-> 0, fl |-> 0, maj |-> 0]
ObsInit == [req |-> NoReq, full |-> FALSE, hv |-> FALSE, cls |-> "U", rej |-> FALSE, pend |-> FALSE,
            inv |-> 0, wr |-> 0, restart |-> FALSE, next |-> -1, closed |-> FALSE, cb |-> <<-1>>, repk |-> "",
            hi |-> [s \in TSID |-> 0], regd |-> [s \in TSID |-> -1], bad |-> {}]

ErrStatus(ty) == CASE ty = 1 -> 7 [] ty = 2 -> 17 [] ty = 3 -> 2 [] OTHER -> -1

\* C19 class of a complete request with a valid header, judged on what the server sees under its key
C19Class(i, e) == LET h == HdrOf(e) IN
   IF ClearFlag(h.fl) THEN "W"
   ELSE LET c == ClrTab[i] IN
        IF LenMismatch(h.ty, c) THEN "M"
        ELSE IF WellFormedRequest(h.ty, c) THEN "W" ELSE "U"

\* set of tags whose condition holds
Tags(conds) == { c[2] : c \in { x \in conds : x[1] } }
Report(new, e) == IF new = {} THEN TRUE ELSE PrintT(<< "PV", new, sc, l, e.e >>)

ObsFeed(e) ==
   IF ~FullHeader(e) THEN [o EXCEPT !.req = NoReq, !.full = FALSE, !.hv = FALSE, !.cls = "U", !.rej = FALSE, !.pend = TRUE,
                                     !.inv = 0, !.wr = 0, !.restart = FALSE, !.next = -1]
   ELSE LET h == HdrOf(e)
            full == FullPacket(e)
            hv == ValidHeader(h)
        IN [o EXCEPT !.req = [sid |-> h.sid, seq |-> h.seq, ty |-> h.ty, min |-> h.min, fl |-> h.fl, maj |-> h.maj],
                     !.full = full, !.hv = hv,
                     !.cls = IF full /\ hv THEN C19Class(l, e) ELSE "U",
                     !.rej = IF h.sid \in TSID THEN S!MustReject(o.hi[h.sid], h.seq) ELSE FALSE,
                     !.pend = TRUE, !.inv = 0, !.wr = 0, !.restart = FALSE, !.next = -1]

ObsInv(e) ==
   LET s == e.sid
       hs == IF s \in TSID THEN o.hi[s] ELSE 0
       rs == IF s \in TSID THEN o.regd[s] ELSE -1
       new == Tags({ << ~o.pend \/ o.inv >= 1, "C07" >>,
                     << o.pend /\ (~o.hv \/ ~o.full), "C07" >>,
                     << o.pend /\ o.cls = "M", "C19" >>,
                     << o.pend /\ o.cls = "M", "C07" >>,
                     << ~S!DispatchOK(hs, rs, e.seq, e.hid), "C08" >>,
                     << o.pend /\ o.full /\ o.hv /\ o.rej, "C07" >>,
                     << o.pend /\ o.full /\ o.hv /\
                        ~( e.sid = o.req.sid /\ e.seq = o.req.seq /\ e.ty = o.req.ty /\ e.min = o.req.min
                           /\ e.fl = o.req.fl /\ e.maj = o.req.maj /\ Len(e.b) = Len(ClrTab[lf]) ), "C05" >>,
                     \* the handler receives the body de-obfuscated with the RFC 8907 pad (verbatim when sent in the clear)
                     << o.pend /\ o.full /\ o.hv /\ e.b # ClrTab[lf], "C03" >> })
   IN [o EXCEPT !.inv = @ + 1, !.bad = @ \cup new,
                !.hi = IF s \in TSID THEN [@ EXCEPT ![s] = S!Max(@, e.seq)] ELSE @]

ObsWr(e) ==
   IF Len(e.b) < 12 THEN [o EXCEPT !.wr = @ + 1, !.bad = @ \cup {"C06"}] ELSE
   LET w == DecHeader(Take(e.b, 12)).v
       body == Drop(e.b, 12)
       lenok == Len4Small(w.len) /\ Len4Val(w.len) = Len(body)
   IN IF o.inv = 0
      THEN \* written by the reader: the key-mismatch error packet
           LET clr == WClrTab[l]
               d == IF w.ty \in {1,2,3} THEN Dec(ReplyKind(w.ty), clr) ELSE Bad
               new == Tags({ << o.cls = "W", "C19" >>,
                             << o.wr >= 1, "C07" >>,
                             << o.cls = "M" /\ ~( lenok /\ w.ty = o.req.ty /\ w.sid = o.req.sid /\ d.ok /\ d.v.status = ErrStatus(w.ty) ), "C19" >>,
                             \* the error packet is a packet the server wrote: what is on the wire, read under the connection's
                             \* secret, must be a reply body of the type (cleartext XOR pad for SOME reply the server meant)
                             << o.cls = "M" /\ lenok /\ w.ty \in {1,2,3} /\ ~d.ok, "C03" >> })
           IN [o EXCEPT !.wr = @ + 1, !.bad = @ \cup new]
      ELSE \* a handler's reply
           LET clr == WClrTab[l]
               \* the body is of the kind the handler handed to Reply (normally the reply kind of the packet type)
               kind == IF o.repk # "" THEN o.repk ELSE IF w.ty \in {1,2,3} THEN ReplyKind(w.ty) ELSE "AuthenReply"
               d == Dec(kind, clr)
               restart == d.ok /\ kind = "AuthenReply" /\ d.v.status = 6
               new == Tags({ << ~( lenok /\ w.maj = 12 /\ S!ReplyMirrors(o.req, w, restart) ), "C06" >>,
                             << lenok /\ ~( d.ok /\ Valid(kind, d.v) ), "C06" >>,
                             \* what is on the wire is the handler's clear body XOR the pad (or verbatim with the clear flag)
                             << o.cb # <<-1>> /\ clr # o.cb, "C03" >> })
           IN [o EXCEPT !.wr = @ + 1, !.restart = restart, !.bad = @ \cup new,
                        !.hi = IF w.sid \in TSID THEN [@ EXCEPT ![w.sid] = S!Max(@, w.seq)] ELSE @]

\* the request has been fully dealt with (server is waiting for more input, or has closed)
Settle(closing) ==
   IF ~o.pend THEN o ELSE
   LET s == o.req.sid
       mustrej == o.full /\ (o.rej \/ ~o.hv \/ o.cls = "M")
       new == Tags({ \* a request that must be rejected: no handler (checked at inv), at most one packet, connection closed
                     << mustrej /\ ~closing /\ o.rej, "C08" >>,
                     << mustrej /\ ~closing /\ ~o.rej /\ o.cls = "M", "C19" >>,
                     << mustrej /\ ~closing /\ ~o.rej /\ o.cls # "M", "C07" >>,
                     << mustrej /\ o.wr > 1, "C07" >>,
                     << o.full /\ o.cls = "M" /\ o.inv = 0 /\ o.wr # 1, "C19" >>,
                     \* an accepted request: exactly one reply (none for 255), unless RESTART answers 255 (left open)
                     << o.inv >= 1 /\ ~(o.req.seq = 255 /\ o.restart) /\ o.wr # S!RepliesExpected(o.req.seq, o.restart), "C07" >>,
                     \* a complete, acceptable request that was neither handled nor refused
                     << o.full /\ ~mustrej /\ o.inv = 0 /\ ~closing, "C07" >>,
                     \* a complete request that is well-formed under the connection's secret (or sent in the clear) and in sequence
                     \* was not delivered at all: the receiver did not recover what the sender wrote
                     << o.full /\ ~mustrej /\ o.cls = "W" /\ o.inv = 0 /\ closing /\ o.wr = 0, "C03" >>,
                     \* ... none of the reasons for which C07 lets a request be rejected applies to it, yet it got neither handler nor reply
                     << o.full /\ ~mustrej /\ o.cls = "W" /\ o.inv = 0 /\ closing, "C07" >>,
                     << o.full /\ ~mustrej /\ o.cls = "W" /\ o.inv = 0 /\ closing /\ o.wr = 0, "C05" >> })
       fin == o.inv >= 1 /\ o.next = -1
   IN [o EXCEPT !.pend = FALSE, !.bad = @ \cup new,
                !.hi = IF o.inv >= 1 /\ s \in TSID THEN [@ EXCEPT ![s] = IF fin THEN 0 ELSE @] ELSE @,
                !.regd = IF o.inv >= 1 /\ s \in TSID THEN [@ EXCEPT ![s] = o.next] ELSE @]

ObsG(e) == LET new == Tags({ << ~S!GaugesSane(e.gs, e.gh), "C20" >>,
                             << o.closed /\ ~S!AtRest(e.gs, e.gh), "C20" >> })
           IN [o EXCEPT !.bad = @ \cup new]

ObsNext(e) ==
   CASE e.e = "reset"   -> ObsInit
     [] e.e = "feed"    -> ObsFeed(e)
     [] e.e = "inv"     -> ObsInv(e)
     [] e.e = "reg"     -> [o EXCEPT !.next = e.id]
     [] e.e = "rep"     -> [o EXCEPT !.cb = IF "cb" \in DOMAIN e /\ e.op # "badreply" THEN e.cb ELSE <<-1>>, !.repk = e.k]
     [] e.e = "wr"      -> ObsWr(e)
     [] e.e = "rdblock" -> Settle(FALSE)
     [] e.e = "cl"      -> [Settle(TRUE) EXCEPT !.closed = TRUE]
     [] e.e = "g"       -> ObsG(e)
     [] OTHER           -> o

----------------------------------------------------------------------------
\* model layer: each event bound to an action of Server.tla (or a checked stutter)

Stutter == UNCHANGED mvars
OpenCount == Cardinality(S!OpenSessions)

Model(e) ==
   CASE e.e = "reset"   -> S!Reset
     [] e.e = "rdblock" -> conn = "open" /\ pc = "read" /\ inbox.rd = "none" /\ nw = Len(wrote) /\ Stutter
     [] e.e = "feed"    -> S!ClientSend(PktOf(l, e))
     [] e.e = "eof"     -> S!ClientEOF
     [] e.e = "wr"      -> IF pc = "read"
                           THEN S!ReadErrWrite /\ Len(e.b) >= 12 /\ SameHdr(WHdr(e.b), S!ErrPacket(inbox))
                           ELSE pc = "run" /\ nw < Len(wrote) /\ Len(e.b) >= 12 /\ SameHdr(WHdr(e.b), wrote[nw + 1]) /\ Stutter
     [] e.e = "read"    -> /\ S!Read
                           /\ LET c == S!ReadClass(inbox) IN
                              e.cls = (IF c = "ok" THEN "ok" ELSE IF c = "eof" THEN "eof" ELSE "err")
     [] e.e = "get"     -> /\ S!Get /\ e.out = S!GetOutcome
                           /\ e.kl = (IF e.out = "parity" THEN Cardinality(S!OpenSessions \ {cur.sid}) ELSE OpenCount)
                           /\ (e.out \in {"stale", "hit"} => e.st = known[cur.sid].seq)
     [] e.e = "set"     -> e.kl = OpenCount /\ Stutter
     [] e.e = "inv"     -> /\ pc = "run" /\ e.hid = hnd
                           /\ e.sid = cur.sid /\ e.seq = cur.seq /\ e.ty = cur.ty /\ e.min = cur.min /\ e.fl = cur.fl
                           /\ Stutter
     [] e.e = "reg"     -> pc = "run" /\ cur.ops # <<>> /\ Head(cur.ops) = "next" /\ S!HStep(e.id)
     [] e.e = "rep"     -> pc = "run" /\ cur.ops # <<>> /\ Head(cur.ops) = e.op /\ Stutter
     [] e.e = "rseq"    -> /\ pc = "run" /\ cur.ops # <<>> /\ Head(cur.ops) \in {"reply", "restart", "badreply", "xreply"}
                           /\ e.merr = (Head(cur.ops) = "badreply")
                           /\ S!HStep(0)
                           /\ (~e.merr => e.seq = resp'.seq)
     [] e.e = "ret"     -> pc = "run" /\ cur.ops = <<>> /\ S!HStep(0)
     [] e.e = "post"    -> /\ pc = "post" /\ e.next = (resp.next # -1) /\ e.rs = resp.seq /\ nw = Len(wrote)
                           /\ S!Post
     [] e.e = "del"     -> (pc = "get" \/ e.kl = OpenCount) /\ Stutter
     [] e.e = "upd"     -> e.kl = OpenCount /\ Stutter
     [] e.e = "sclose"  -> Stutter
     [] e.e = "cl"      -> conn = "closed" /\ Stutter
     [] e.e = "g"       -> e.gs = gSess /\ e.gh = gHand /\ Stutter
     [] OTHER           -> Stutter

----------------------------------------------------------------------------
Init == /\ S!Init
        /\ l = 1 /\ div = FALSE /\ sc = "" /\ key = <<>> /\ lf = 0 /\ nw = 0 /\ o = ObsInit

Next ==
   /\ l <= N
   /\ l' = l + 1
   /\ LET e == Tr[l] IN
      /\ LET on == ObsNext(e) IN o' = on /\ Report(on.bad \ (IF e.e = "reset" THEN {} ELSE o.bad), e)
      /\ sc' = IF e.e = "reset" THEN e.sc ELSE sc
      /\ key' = IF e.e = "reset" THEN e.key ELSE key
      /\ lf' = IF e.e = "feed" THEN l ELSE lf
      /\ nw' = IF e.e \in {"feed", "reset"} THEN 0 ELSE IF e.e = "wr" THEN nw + 1 ELSE nw
      /\ IF (e.e = "reset" \/ ~div) /\ ENABLED Model(e)
         THEN Model(e) /\ div' = FALSE
         ELSE /\ div' = TRUE /\ UNCHANGED mvars
              /\ (IF div THEN TRUE ELSE PrintT(<< "DIV", sc, l, e >>))

Spec == Init /\ [][Next]_<< mvars, tvars >>

\* all events consumed (the chain is linear, so the diameter says how far we got)
Done == TLCGet("stats").diameter - 1 = N \/ (PrintT(<< "SHORT", TLCGet("stats").diameter - 1, N >>) /\ FALSE)
=============================================================================
