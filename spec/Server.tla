-------------------------------- MODULE Server --------------------------------
(* One TACACS+ connection as served by tacquito.Server: the per-connection loop of  *)
(* server.go handle(), the reader outcomes of crypt.go read(), the session table of *)
(* sessions.go, the response object of handlers.go and the in-flight gauges of      *)
(* stats.go.  One action per hookable step of the code:                             *)
(*                                                                                  *)
(*   ClientSend / ClientEOF      environment                                        *)
(*   Read(cls)                   crypter.read(): ok | eof | short | badhdr |        *)
(*                               oversize | mismatch (writes the seq-1 error packet)*)
(*   Get                         sessions.get (+ set on a miss, + handlers.Inc)     *)
(*   HNext / HReply / HReturn    what a handler does with the response object       *)
(*   Post                        handlers.Dec, sessions.delete | sessions.update    *)
(*   Close                       deferred sessions.close + conn.Close               *)
(*                                                                                  *)
(* Handler behaviour is a parameter: each request carries the list of response      *)
(* operations its handler will perform (cur.ops), so the same module serves the     *)
(* "Chaos" handler (any handler that replies exactly once) and scripted handlers.   *)
(*                                                                                  *)
(* Defects selects, per action, the behaviour of the pinned tree instead of the     *)
(* intended one:  "narrow8"  stored sequence number compared after uint8 narrowing, *)
(* "gaugeDecAlways" sessions gauge decremented for unknown sessions,                *)
(* "gaugeLeakOnClose" sessions still open at close never subtracted.                *)
EXTENDS Integers, Sequences, FiniteSets, TLC

CONSTANTS SID,       \* session ids
          Defects,   \* see above
          Packets    \* what a client may send (MC); unused by trace validation

\* TLC cannot compare a record with a string, so "no packet" and "end of stream" are packets too
NoPkt  == [sid |-> 0, seq |-> 0, ty |-> 0, min |-> 0, fl |-> 0, rd |-> "none", ops |-> <<>>]
EofPkt == [sid |-> 0, seq |-> 0, ty |-> 0, min |-> 0, fl |-> 0, rd |-> "eof", ops |-> <<>>]
None == NoPkt
NoSess == [seq |-> -1, cont |-> -1]
Entry == 0                                  \* identity of the connection's entry handler

VARIABLES
   conn,     \* "open" | "closed"
   pc,       \* "read" | "get" | "run" | "post"
   inbox,    \* NoPkt | EofPkt | packet
   cur,      \* request under processing (or None)
   known,    \* [SID -> NoSess | [seq, cont]]     sessions.known
   hnd,      \* identity of the handler chosen for cur
   resp,     \* [seq, next, nrep, nwr, restart]   response object + counters for this request
   gSess, gHand,                                \* sessions_active, handle_handlers
   wrote,    \* headers of the packets written since the last client packet (reader error packet, replies)
   \* ---- history (hidden by VIEW in MC; the properties only mention these) ----
   npk,      \* packets sent so far
   hi,       \* [SID -> highest sequence number received or sent in the open incarnation, 0 if none]
   regd,     \* [SID -> continuation registered by the last reply of the open incarnation, or -1]
   viol,     \* set of property tags violated so far
   script    \* packets sent so far (emitted as replay scripts)

mvars == << conn, pc, inbox, cur, known, hnd, resp, gSess, gHand, wrote >>
hvars == << npk, hi, regd, viol, script >>
vars  == << mvars, hvars >>

----------------------------------------------------------------------------
\* Property predicates (shared by MC_Server invariants and Trace_Server's observation layer)

ClearFlag(fl) == fl % 2 = 1
Max(a, b) == IF a > b THEN a ELSE b

\* C08: a packet may reach a handler only if odd and above everything seen in the incarnation,
\* and the handler must be the registered continuation (or the entry handler for a fresh incarnation)
DispatchOK(hi_s, regd_s, seq, hid) ==
   /\ seq % 2 = 1
   /\ seq > hi_s
   /\ hid = (IF regd_s = -1 THEN Entry ELSE regd_s)
\* the client packet must be rejected (no handler, connection closed)
MustReject(hi_s, seq) == seq % 2 = 0 \/ seq <= hi_s

\* C06: reply header w mirrors request header r
ReplyMirrors(r, w, restart) ==
   /\ w.sid = r.sid /\ w.ty = r.ty /\ w.min = r.min /\ w.fl = r.fl
   /\ w.seq = (IF restart THEN 1 ELSE r.seq + 1)
   /\ w.seq \in 1..255
\* C07: number of packets written for an accepted request
RepliesExpected(seq, restart) == IF seq = 255 /\ ~restart THEN 0 ELSE 1
\* C20
GaugesSane(gs, gh) == gs >= 0 /\ gh >= 0
AtRest(gs, gh) == gs = 0 /\ gh = 0

----------------------------------------------------------------------------
Has(s) == known[s] # NoSess
Narrow(n) == IF "narrow8" \in Defects THEN n % 256 ELSE n
OpenSessions == {s \in SID : Has(s)}

Init ==
   /\ conn = "open" /\ pc = "read" /\ inbox = None /\ cur = None
   /\ known = [s \in SID |-> NoSess] /\ hnd = -1
   /\ resp = [seq |-> 0, next |-> -1, nrep |-> 0, nwr |-> 0, restart |-> FALSE]
   /\ gSess = 0 /\ gHand = 0 /\ wrote = <<>>
   /\ npk = 0 /\ hi = [s \in SID |-> 0] /\ regd = [s \in SID |-> -1] /\ viol = {} /\ script = <<>>

\* a fresh connection (used by trace validation to chain many scenarios in one behaviour)
Reset ==
   /\ conn' = "open" /\ pc' = "read" /\ inbox' = None /\ cur' = None
   /\ known' = [s \in SID |-> NoSess] /\ hnd' = -1
   /\ resp' = [seq |-> 0, next |-> -1, nrep |-> 0, nwr |-> 0, restart |-> FALSE]
   /\ gSess' = 0 /\ gHand' = 0 /\ wrote' = <<>>
   /\ npk' = 0 /\ hi' = [s \in SID |-> 0] /\ regd' = [s \in SID |-> -1] /\ viol' = {} /\ script' = <<>>

\* ---- environment --------------------------------------------------------
ClientSend(p) ==
   /\ conn = "open" /\ pc = "read" /\ inbox.rd = "none"
   /\ inbox' = p /\ npk' = npk + 1 /\ script' = Append(script, p) /\ wrote' = <<>>
   /\ UNCHANGED << conn, pc, cur, known, hnd, resp, gSess, gHand, hi, regd, viol >>

ClientEOF ==
   /\ conn = "open" /\ pc = "read" /\ inbox.rd = "none"
   /\ inbox' = EofPkt /\ script' = Append(script, EofPkt)
   /\ UNCHANGED << conn, pc, cur, known, hnd, resp, gSess, gHand, wrote, npk, hi, regd, viol >>

\* ---- deferred sessions.close + conn.Close --------------------------------
CloseEffects ==
   /\ conn' = "closed"
   /\ gSess' = IF "gaugeLeakOnClose" \in Defects THEN gSess ELSE gSess - Cardinality(OpenSessions)
   /\ known' = [s \in SID |-> NoSess]
   /\ hi' = [s \in SID |-> 0] /\ regd' = [s \in SID |-> -1]

\* ---- crypter.read ---------------------------------------------------------
\* the bad-secret error packet: request header with the sequence number forced to 1
ErrPacket(p) == [sid |-> p.sid, ty |-> p.ty, min |-> p.min, fl |-> p.fl, seq |-> 1, err |-> TRUE]

ReadClass(p) == IF p.rd = "eof" THEN "eof"
                ELSE IF p.rd = "mismatch" /\ ClearFlag(p.fl) THEN "ok"   \* never examined when sent in the clear
                ELSE p.rd

\* a key mismatch is answered with one error packet before the reader gives up
ReadErrWrite ==
   /\ conn = "open" /\ pc = "read" /\ inbox.rd # "none" /\ wrote = <<>>
   /\ ReadClass(inbox) = "mismatch"
   /\ wrote' = << ErrPacket(inbox) >>
   /\ UNCHANGED << conn, pc, inbox, cur, known, hnd, resp, gSess, gHand, hvars >>

Read ==
   /\ conn = "open" /\ pc = "read" /\ inbox.rd # "none"
   /\ LET c == ReadClass(inbox) IN
      /\ (c = "mismatch") => (wrote # <<>>)
      /\ IF c = "ok"
         THEN /\ cur' = inbox /\ pc' = "get" /\ inbox' = None
              /\ UNCHANGED << conn, known, hnd, resp, gSess, gHand, wrote, npk, hi, regd, viol, script >>
         ELSE /\ CloseEffects
              /\ inbox' = None /\ cur' = None
              /\ UNCHANGED << pc, hnd, resp, gHand, wrote, npk, viol, script >>

\* ---- sessions.get / set, handlers.Inc -------------------------------------
DeleteEffect(s) ==
   /\ known' = [known EXCEPT ![s] = NoSess]
   /\ gSess' = IF Has(s) \/ "gaugeDecAlways" \in Defects THEN gSess - 1 ELSE gSess

GetOutcome == IF cur.seq % 2 = 0 THEN "parity"
              ELSE IF ~Has(cur.sid) THEN "miss"
              ELSE IF Narrow(known[cur.sid].seq) >= cur.seq THEN "stale"
              ELSE "hit"

Get ==
   /\ conn = "open" /\ pc = "get"
   /\ LET o == GetOutcome  s == cur.sid IN
      CASE o = "parity" ->
             \* delete, then the deferred close
             /\ conn' = "closed"
             /\ LET g1 == IF Has(s) \/ "gaugeDecAlways" \in Defects THEN gSess - 1 ELSE gSess
                    rest == OpenSessions \ {s}
                IN gSess' = IF "gaugeLeakOnClose" \in Defects THEN g1 ELSE g1 - Cardinality(rest)
             /\ known' = [t \in SID |-> NoSess]
             /\ hi' = [t \in SID |-> 0] /\ regd' = [t \in SID |-> -1]
             /\ cur' = None
             /\ UNCHANGED << pc, inbox, hnd, resp, gHand, wrote, npk, viol, script >>
        [] o = "stale" ->
             /\ CloseEffects /\ cur' = None
             /\ UNCHANGED << pc, inbox, hnd, resp, gHand, wrote, npk, viol, script >>
        [] o \in {"miss", "hit"} ->
             LET h == IF o = "miss" THEN Entry ELSE known[s].cont IN
             /\ known' = IF o = "miss" THEN [known EXCEPT ![s] = [seq |-> cur.seq, cont |-> -1]] ELSE known
             /\ gSess' = IF o = "miss" THEN gSess + 1 ELSE gSess
             /\ gHand' = gHand + 1
             /\ hnd' = h
             /\ resp' = [seq |-> cur.seq, next |-> -1, nrep |-> 0, nwr |-> 0, restart |-> FALSE]
             /\ pc' = "run"
             /\ viol' = IF DispatchOK(hi[s], regd[s], cur.seq, h) THEN viol ELSE viol \cup {"C08"}
             /\ hi' = [hi EXCEPT ![s] = Max(@, cur.seq)]
             /\ UNCHANGED << conn, inbox, cur, regd, wrote, npk, script >>

\* ---- the handler: a list of operations on the response object --------------
\* "next"    response.Next(k)          k = identity of the new continuation (parameter id)
\* "reply"   response.Reply(v)         sequence number = stored + 1
\* "restart" response.Reply(RESTART)   sequence number = 1
\* "xreply"  Reply with a body of another AAA family than the request's packet type: the header still mirrors the request
\* "badreply" Reply with a body that fails its own validation: nothing written, header untouched
HStep(id) ==
   /\ conn = "open" /\ pc = "run"
   /\ IF cur.ops = <<>>
      THEN /\ pc' = "post" /\ UNCHANGED << conn, inbox, cur, known, hnd, resp, gSess, gHand, wrote, hvars >>
      ELSE LET op == Head(cur.ops)  s == cur.sid IN
           /\ cur' = [cur EXCEPT !.ops = Tail(@)]
           /\ CASE op = "next" ->
                     /\ resp' = [resp EXCEPT !.next = id]
                     /\ UNCHANGED << hi, viol, wrote >>
                [] op \in {"reply", "restart", "xreply"} ->
                     LET sq == IF op = "restart" THEN 1 ELSE resp.seq + 1
                         w == [sid |-> s, ty |-> cur.ty, min |-> cur.min, fl |-> cur.fl, seq |-> sq, err |-> FALSE]
                         written == sq <= 255
                     IN /\ resp' = [resp EXCEPT !.seq = sq, !.nrep = @ + 1,
                                                !.nwr = IF written THEN @ + 1 ELSE @,
                                                !.restart = (op = "restart")]
                        /\ wrote' = IF written THEN Append(wrote, w) ELSE wrote
                        /\ hi' = IF written THEN [hi EXCEPT ![s] = Max(@, sq)] ELSE hi
                        /\ viol' = IF written /\ ~ReplyMirrors(script[npk], w, op = "restart")
                                   THEN viol \cup {"C06"} ELSE viol
                [] op = "badreply" ->
                     /\ resp' = [resp EXCEPT !.nrep = @ + 1]
                     /\ UNCHANGED << hi, viol, wrote >>
           /\ UNCHANGED << conn, pc, inbox, known, hnd, gSess, gHand, npk, regd, script >>

\* ---- after the handler returns --------------------------------------------
Post ==
   /\ conn = "open" /\ pc = "post"
   /\ LET s == cur.sid IN
      /\ gHand' = gHand - 1
      /\ IF resp.next = -1
         THEN /\ DeleteEffect(s)
              /\ hi' = [hi EXCEPT ![s] = 0] /\ regd' = [regd EXCEPT ![s] = -1]
         ELSE /\ known' = IF Has(s) THEN [known EXCEPT ![s] = [seq |-> resp.seq, cont |-> resp.next]] ELSE known
              /\ gSess' = gSess
              /\ regd' = [regd EXCEPT ![s] = resp.next]
              /\ hi' = hi
      /\ viol' = IF resp.nwr = RepliesExpected(script[npk].seq, resp.restart) THEN viol ELSE viol \cup {"C07"}
   /\ pc' = "read" /\ cur' = None
   /\ UNCHANGED << conn, inbox, hnd, resp, wrote, npk, script >>

\* in MC the identity of a continuation is derived from the request that registered it
ContId == IF cur.rd = "none" THEN -1 ELSE cur.sid * 1000 + cur.seq
Next == (\E p \in Packets : ClientSend(p)) \/ ClientEOF \/ ReadErrWrite \/ Read \/ Get \/ HStep(ContId) \/ Post
Spec == Init /\ [][Next]_vars

----------------------------------------------------------------------------
\* Invariants (over history variables and gauges only)
C06 == "C06" \notin viol
C07 == "C07" \notin viol
C08 == "C08" \notin viol
\* C08: nothing of a finished session is retained
C08Retain == pc = "read" => \A s \in SID : (regd[s] = -1) => ~Has(s)
C20NonNeg == GaugesSane(gSess, gHand)
C20Rest == conn = "closed" => AtRest(gSess, gHand)
\* the model's own sanity: gauge = table size while the connection is at rest
GaugeMatchesTable == (pc = "read" /\ conn = "open") => gSess = Cardinality(OpenSessions)
=============================================================================
