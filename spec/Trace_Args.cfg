SPECIFICATION Spec
INVARIANT Done
POSTCONDITION Final
CHECK_DEADLOCK FALSE
