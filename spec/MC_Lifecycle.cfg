SPECIFICATION Spec
CONSTANTS
  Conns = {1, 2}
  MaxPkts = 2
  Defects = {}
  Record = TRUE
VIEW View
ACTION_CONSTRAINT Emit
INVARIANTS ServeReturnsLast DeadlineArmed GaugesSane AtRestWhenReturned
CHECK_DEADLOCK FALSE
