SPECIFICATION MCSpec
CONSTANTS
  SID = {1, 2}
  SEQS = {1, 2, 3, 5, 253, 255}
  MaxPkts = 4
  Defects = {}
  DefectSet = {}
  Packets = {}
VIEW View
ACTION_CONSTRAINT Emit
INVARIANTS C06 C07 C08 C08Retain C20NonNeg C20Rest GaugeMatchesTable
CHECK_DEADLOCK FALSE
