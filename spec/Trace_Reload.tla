----------------------------- MODULE Trace_Reload -----------------------------
(* Histories of documents fed to ONE real loader instance (harness/reload.go), YAML and *)
(* JSON, through Unmarshal and Load(path); after every load the harness records the     *)
(* value received from Config() (normalised), the value a FRESH real loader publishes   *)
(* for the same text, and which earlier published values changed.  Then a real          *)
(* loader.Loader fed the same published values is probed with addresses and compared    *)
(* with a fresh Loader built from the last good document.                               *)
EXTENDS Integers, Sequences, FiniteSets, TLC, Json, IOUtils

Tr == ndJsonDeserialize(IOEnv.TRACE_FILE)
N == Len(Tr)
VARIABLES l, sc, npub, lastgood, cnt
Tags(conds) == { c[2] : c \in { x \in conds : x[1] } }

Init == l = 1 /\ sc = "" /\ npub = 0 /\ lastgood = "" /\ cnt = [loads |-> 0, good |-> 0, probes |-> 0]
Next ==
   /\ l <= N /\ l' = l + 1
   /\ LET e == Tr[l] IN
      CASE e.e = "reset" -> sc' = e.sc /\ npub' = 0 /\ lastgood' = "" /\ cnt' = cnt
        [] e.e = "load" ->
             \* model step Reload!Load(d): good documents publish Fresh(d), others publish nothing
             /\ LET good == e.parses /\ e.minok
                    t == Tags({ << good /\ ~e.ok, "C16" >>,                       \* a good document was refused
                                << ~good /\ e.ok, "C16" >>,                       \* a bad document was published
                                << e.ok /\ e.freshok /\ e.pub # e.fresh, "C16" >>,      \* reload differs from a fresh start
                                << e.ok /\ ~e.freshok, "C16" >>,
                                << e.mutated # <<>>, "C16" >> })                  \* an already published value changed
                IN IF t = {} THEN TRUE ELSE PrintT(<< "PV", t, sc, l, "load" >>)
             /\ npub' = IF e.ok THEN npub + 1 ELSE npub
             /\ lastgood' = IF e.ok THEN e.doc ELSE lastgood
             /\ cnt' = [cnt EXCEPT !.loads = @ + 1, !.good = IF e.ok THEN @ + 1 ELSE @]
             /\ sc' = sc
        [] e.e = "probe" ->
             \* the long-lived Loader answers like a fresh one built from the last good document
             /\ LET t == Tags({ << e.ok # e.fok, "C16" >>, << e.ok /\ e.fok /\ e.key # e.fkey, "C16" >>, << e.users # e.fusers, "C16" >> })
                IN IF t = {} THEN TRUE ELSE PrintT(<< "PV", t, sc, l, "probe" >>)
             /\ cnt' = [cnt EXCEPT !.probes = @ + 1] /\ UNCHANGED << sc, npub, lastgood >>
        [] e.e = "wstart" ->
             \* histories played through the file system: loader.NewLocalConfig with the real fsnotify watcher; a good first
             \* document must be accepted (the probes after every rewrite of the file are judged like all other probes)
             /\ (IF e.good /\ ~e.ok THEN PrintT(<< "PV", {"C16"}, sc, l, "watch" >>) ELSE TRUE)
             /\ UNCHANGED << sc, npub, lastgood, cnt >>
        [] e.e = "wlog" ->
             \* a logger call of the watcher / loader that shows a shared secret of one of the documents (C18)
             /\ PrintT(<< "PV", {"C18"}, sc, l, "watchlog" >>)
             /\ UNCHANGED << sc, npub, lastgood, cnt >>
        [] e.e = "burst" ->
             \* every document of a burst is good: Reload!Load x docs then Reload!Install x docs (PipelineExact:
             \* ninst + Len(chan) = Len(published)); the probes that follow are judged against Fresh(last)
             /\ LET t == Tags({ << ~e.ok, "C16" >>,                               \* a good document was refused
                                << e.held /\ e.consumed # e.docs, "C16" >> })     \* a published value was dropped / never installed
                IN IF t = {} THEN TRUE ELSE PrintT(<< "PV", t, sc, l, "burst" >>)
             /\ UNCHANGED << sc, npub, lastgood, cnt >>
        [] OTHER -> UNCHANGED << sc, npub, lastgood, cnt >>
Spec == Init /\ [][Next]_<< l, sc, npub, lastgood, cnt >>
Done == IF l = N + 1 THEN PrintT(<< "CNT", cnt >>) ELSE TRUE
Final == TLCGet("stats").diameter - 1 = N \/ (PrintT(<< "SHORT", TLCGet("stats").diameter - 1, N >>) /\ FALSE)
=============================================================================
