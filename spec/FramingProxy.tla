---------------------------- MODULE FramingProxy ----------------------------
(* Framing with SetUseProxy(true), AS THE CODE DOES IT (crypt.go crypter.read): a     *)
(* line terminated by the octet 0 is read and checked before EVERY packet, not once   *)
(* per connection - a deliberate transcription of the implementation (DESIGN.md,       *)
(* section 5, observation on the proxy option; no listed property covers it).          *)
(*   ParseProxy(s)  what is delivered from the byte stream s, on the stream alone      *)
(*   state machine  the chunk-fed reader with its three blocking reads                 *)
(*                  (ReadBytes(0), ReadFull header, ReadFull body)                     *)
EXTENDS Integers, Sequences, SequencesExt, TLC

CONSTANTS HL, BodyLen(_), LineOK(_)

FirstNul(s) == IF \E i \in 1..Len(s) : s[i] = 0 THEN CHOOSE i \in 1..Len(s) : s[i] = 0 /\ \A j \in 1..(i - 1) : s[j] # 0 ELSE 0

RECURSIVE PFrom(_,_)
PFrom(s, acc) ==
   IF Len(s) = 0 THEN [del |-> acc, st |-> "clean"]
   ELSE LET z == FirstNul(s) IN
        IF z = 0 THEN [del |-> acc, st |-> "failed"]                           \* still waiting for the terminator
        ELSE IF ~LineOK(SubSeq(s, 1, z)) THEN [del |-> acc, st |-> "badline"]  \* connection closed at once
        ELSE LET r == SubSeq(s, z + 1, Len(s)) IN
             IF Len(r) < HL THEN [del |-> acc, st |-> "failed"]
             ELSE LET h == SubSeq(r, 1, HL)  n == BodyLen(h) IN
                  IF n < 0 THEN [del |-> acc, st |-> "refused"]
                  ELSE IF Len(r) < HL + n THEN [del |-> acc, st |-> "failed"]
                  ELSE PFrom(SubSeq(r, HL + n + 1, Len(r)), Append(acc, [h |-> h, b |-> SubSeq(r, HL + 1, HL + n)]))
ParseProxy(s) == PFrom(s, <<>>)

----------------------------------------------------------------------------
VARIABLES stream, net, buf, phase, curh, delivered, st
pvars == << stream, net, buf, phase, curh, delivered, st >>

PInit(streams) ==
   /\ stream \in streams /\ net = stream /\ buf = <<>> /\ phase = "line" /\ curh = <<>>
   /\ delivered = <<>> /\ st = "running"

Ready == CASE phase = "line" -> FirstNul(buf) > 0
           [] phase = "hdr"  -> Len(buf) >= HL
           [] phase = "body" -> Len(buf) >= BodyLen(curh)
Blocked == st = "running" /\ ~Ready

Deliver(k) ==
   /\ Blocked /\ k \in 1..Len(net)
   /\ buf' = buf \o SubSeq(net, 1, k) /\ net' = SubSeq(net, k + 1, Len(net))
   /\ UNCHANGED << stream, phase, curh, delivered, st >>

Step ==
   /\ st = "running" /\ Ready
   /\ CASE phase = "line" ->
             LET z == FirstNul(buf) IN
             /\ buf' = SubSeq(buf, z + 1, Len(buf))
             /\ IF LineOK(SubSeq(buf, 1, z)) THEN phase' = "hdr" /\ UNCHANGED st ELSE st' = "badline" /\ UNCHANGED phase
             /\ UNCHANGED << curh, delivered >>
        [] phase = "hdr" ->
             LET h == SubSeq(buf, 1, HL) IN
             /\ buf' = SubSeq(buf, HL + 1, Len(buf))
             /\ IF BodyLen(h) < 0 THEN st' = "refused" /\ UNCHANGED << phase, curh, delivered >>
                ELSE phase' = "body" /\ curh' = h /\ UNCHANGED << delivered, st >>
        [] phase = "body" ->
             LET n == BodyLen(curh) IN
             /\ delivered' = Append(delivered, [h |-> curh, b |-> SubSeq(buf, 1, n)])
             /\ buf' = SubSeq(buf, n + 1, Len(buf))
             /\ phase' = "line" /\ curh' = <<>> /\ UNCHANGED st
   /\ UNCHANGED << stream, net >>

EndOfStream ==
   /\ Blocked /\ net = <<>>
   /\ st' = IF phase = "line" /\ buf = <<>> THEN "clean" ELSE "failed"
   /\ UNCHANGED << stream, net, buf, phase, curh, delivered >>

PNext == (\E k \in 1..Len(net) : Deliver(k)) \/ Step \/ EndOfStream

DeliveredIsPrefix == IsPrefix(delivered, ParseProxy(stream).del)
FinalMatches == st # "running" => (delivered = ParseProxy(stream).del /\ st = ParseProxy(stream).st)
NoShortPacket == \A i \in 1..Len(delivered) : Len(delivered[i].b) = BodyLen(delivered[i].h)
=============================================================================
