------------------------------- MODULE MC_Crypt -------------------------------
(* Facts about Crypt.tla / MD5.tla themselves, re-validated at every run:            *)
(* RFC 1321 test suite, chaining of the pad, prefix property, XOR involution, the    *)
(* clear flag, independence of header octets - over a small exhaustive domain.       *)
EXTENDS Crypt, TLC, FiniteSets

Keys == { <<>>, <<0>>, <<102, 111, 111, 109, 97, 110>>, [i \in 1..70 |-> (i * 7) % 256] }
Sids == { <<0, 0, 0, 0>>, <<0, 0, 48, 57>>, <<255, 255, 255, 255>> }
Vers == {192, 193}
Seqs == {1, 2, 255}
Lens == {0, 1, 15, 16, 17, 32, 33}

ASSUME MD5SelfTest
ASSUME CryptSelfTest
\* the 70-octet key makes the MD5 input two blocks long
ASSUME \A k \in Keys, s \in Sids, v \in Vers, q \in Seqs :
          /\ \A n \in Lens, m \in Lens : PadPrefix(k, s, v, q, n, m)
          /\ Len(Pad(k, s, v, q, 33)) = 33
          /\ SubSeq(Pad(k, s, v, q, 33), 17, 32) = MD5(PadSeed(s, k, v, q) \o SubSeq(Pad(k, s, v, q, 16), 1, 16))
\* distinct header octets give distinct pads (the hash really covers sid, key, version, seq)
ASSUME \A k \in Keys : Cardinality({ Pad(k, s, v, q, 16) : s \in Sids, v \in Vers, q \in Seqs }) = 18
ASSUME Cardinality({ Pad(k, <<0, 0, 48, 57>>, 193, 1, 16) : k \in Keys }) = Cardinality(Keys)
ASSUME \A k \in Keys, fl \in {0, 1, 4, 5, 254, 255} :
          LET body == [i \in 1..20 |-> (i * 13) % 256] IN
          /\ Involution(k, <<0, 0, 48, 57>>, 192, 3, fl, body)
          /\ ClearFlag(fl) => OnWire(k, <<0, 0, 48, 57>>, 192, 3, fl, body) = body
          /\ ~ClearFlag(fl) => OnWire(k, <<0, 0, 48, 57>>, 192, 3, fl, body) # body
VARIABLE x
Init == x = 0
Next == x' = x
=============================================================================
