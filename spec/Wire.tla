-------------------------------- MODULE Wire --------------------------------
(* RFC 8907 wire layouts of the packet header (section 4.1) and the seven AAA      *)
(* bodies (5.1 START, 5.2 REPLY, 5.3 CONTINUE, 6.1 REQUEST, 6.2 REPLY, 7.1 REQUEST,*)
(* 7.2 REPLY), written from the RFC figures, NOT from the Go code.  Octets are     *)
(* naturals 0..255, text fields are sequences of octets, 32-bit quantities are     *)
(* 4-tuples of octets (TLC integers are 32-bit signed).                            *)
(*                                                                                 *)
(*  Enc_K   : value -> octets          (the layout; oracle for C01)                *)
(*  Dec_K   : octets -> value | Bad    (canonical decoder; exact lengths)          *)
(*  Valid_K : the type's own rules     (enum membership, ASCII, argument sizes)    *)
(*  Fits_K  : every field fits its wire length field (C02)                         *)
(*  Impl_K  : the clamping decoder of packet.go readBuffer + *.UnmarshalBinary,    *)
(*            implementation shaped (model layer of C04, C19)                      *)
(*  LenMismatch(ty, b) : length-consistency rule of C19, stated independently      *)
EXTENDS Integers, Sequences, FiniteSets, TLC

MinOf(a, b) == IF a < b THEN a ELSE b
U16(n) == << n \div 256, n % 256 >>
RdU16(b, i) == b[i] * 256 + b[i+1]            \* big-endian 16-bit at 1-based offset i
IsOctet(x) == x \in 0..255
IsAscii(s) == \A i \in 1..Len(s) : s[i] <= 127
Sum(lens) == LET RECURSIVE S(_) S(k) == IF k = 0 THEN 0 ELSE lens[k] + S(k-1) IN S(Len(lens))
Lens(args) == [i \in 1..Len(args) |-> Len(args[i])]
RECURSIVE FlattenFrom(_,_)
FlattenFrom(args, k) == IF k > Len(args) THEN <<>> ELSE args[k] \o FlattenFrom(args, k+1)
Flatten(args) == FlattenFrom(args, 1)
Drop(b, n) == SubSeq(b, n+1, Len(b))
Take(b, n) == SubSeq(b, 1, n)

\* split b into consecutive pieces of the given lengths (caller guarantees Sum(lens) <= Len(b))
RECURSIVE SplitAt(_,_,_,_)
SplitAt(b, lens, k, off) == IF k > Len(lens) THEN <<>>
                            ELSE <<SubSeq(b, off+1, off+lens[k])>> \o SplitAt(b, lens, k+1, off+lens[k])
Split(b, lens) == SplitAt(b, lens, 1, 0)

Bad == [ok |-> FALSE]
Ok(v) == [ok |-> TRUE, v |-> v]

----------------------------------------------------------------------------
\* 32-bit helpers on 4-tuples
Len4Small(t) == t[1] = 0 /\ t[2] <= 1 /\ (t[2] = 1 => (t[3] = 0 /\ t[4] = 0))       \* value <= 65536
Len4Val(t) == (t[2] * 256 + t[3]) * 256 + t[4]                                      \* valid when t[1] = 0
ToLen4(n) == << 0, (n \div 65536) % 256, (n \div 256) % 256, n % 256 >>             \* n < 2^24

----------------------------------------------------------------------------
\* 4.1 header: version(major nibble, minor nibble) type seq flags session_id(4) length(4)
EncHeader(h) == << h.maj * 16 + h.min, h.ty, h.seq, h.fl >> \o h.sid \o h.len
ValidHeader(h) == /\ h.maj = 12 /\ h.min \in {0, 1}
                  /\ h.ty \in {1, 2, 3}
                  /\ h.seq \in 1..255
                  /\ Len4Small(h.len)
FitsHeader(h) == h.maj \in 0..15 /\ h.min \in 0..15 /\ IsOctet(h.ty) /\ h.seq \in 0..255 /\ IsOctet(h.fl)
DecHeader(b) == IF Len(b) < 12 THEN Bad ELSE
   Ok([maj |-> b[1] \div 16, min |-> b[1] % 16, ty |-> b[2], seq |-> b[3], fl |-> b[4],
       sid |-> SubSeq(b, 5, 8), len |-> SubSeq(b, 9, 12)])
\* documented exception: the header decoder turns on single-connect (0x04) when seq = 2
SingleConnectBit == 4
HasBit(fl, bit) == (fl \div bit) % 2 = 1
HeaderAsDecoded(h) == IF h.seq = 2 /\ ~HasBit(h.fl, SingleConnectBit) THEN [h EXCEPT !.fl = h.fl + SingleConnectBit] ELSE h

----------------------------------------------------------------------------
\* enumerations (RFC 8907 sections 5.1, 5.2, 6.1, 6.2, 7.1, 7.2)
Actions  == {1, 2, 4}
ATypes   == 0..6          \* 0 = not set (authorization / accounting only)
Services == 0..9
Methods  == {0, 1, 2, 3, 4, 5, 6, 8, 16}
AuthenStatuses == 1..7
AuthorStatuses == {1, 2, 16, 17}
AcctStatuses   == {1, 2}
PrivOK(p) == p \in 0..15
ArgOK(a)     == IsAscii(a) /\ Len(a) >= 2 /\ Len(a) <= 255
AcctArgOK(a) == IsAscii(a) /\ Len(a) <= 255

----------------------------------------------------------------------------
\* 5.1 authentication START
\*  action priv_lvl authen_type authen_service user_len port_len rem_addr_len data_len user port rem_addr data
EncAuthenStart(v) == << v.action, v.priv, v.atype, v.service,
                        Len(v.user), Len(v.port), Len(v.raddr), Len(v.data) >>
                     \o v.user \o v.port \o v.raddr \o v.data
ValidAuthenStart(v) == /\ v.atype # 0 /\ v.atype \in ATypes
                       /\ v.action \in Actions /\ PrivOK(v.priv) /\ v.service \in Services
                       /\ IsAscii(v.user) /\ IsAscii(v.port) /\ IsAscii(v.raddr)
                       /\ (v.atype = 1 => IsAscii(v.data))
FitsAuthenStart(v) == /\ Len(v.user) <= 255 /\ Len(v.port) <= 255 /\ Len(v.raddr) <= 255 /\ Len(v.data) <= 255
                      /\ IsOctet(v.action) /\ IsOctet(v.priv) /\ IsOctet(v.atype) /\ IsOctet(v.service)
DecAuthenStart(b) == IF Len(b) < 8 THEN Bad ELSE
   LET ls == SubSeq(b, 5, 8) IN
   IF Len(b) # 8 + Sum(ls) THEN Bad ELSE
   LET p == Split(Drop(b, 8), ls) IN
   Ok([action |-> b[1], priv |-> b[2], atype |-> b[3], service |-> b[4],
       user |-> p[1], port |-> p[2], raddr |-> p[3], data |-> p[4]])

\* 5.2 authentication REPLY:  status flags server_msg_len(2) data_len(2) server_msg data
EncAuthenReply(v) == << v.status, v.flags >> \o U16(Len(v.msg)) \o U16(Len(v.data)) \o v.msg \o v.data
ValidAuthenReply(v) == v.status \in AuthenStatuses
FitsAuthenReply(v) == Len(v.msg) <= 65535 /\ Len(v.data) <= 65535 /\ IsOctet(v.status) /\ IsOctet(v.flags)
DecAuthenReply(b) == IF Len(b) < 6 THEN Bad ELSE
   LET ml == RdU16(b, 3)  dl == RdU16(b, 5) IN
   IF Len(b) # 6 + ml + dl THEN Bad ELSE
   Ok([status |-> b[1], flags |-> b[2], msg |-> SubSeq(b, 7, 6 + ml), data |-> SubSeq(b, 7 + ml, 6 + ml + dl)])

\* 5.3 authentication CONTINUE:  user_msg_len(2) data_len(2) flags user_msg data
EncAuthenContinue(v) == U16(Len(v.msg)) \o U16(Len(v.data)) \o << v.flags >> \o v.msg \o v.data
ValidAuthenContinue(v) == IsAscii(v.msg)
FitsAuthenContinue(v) == Len(v.msg) <= 65535 /\ Len(v.data) <= 65535 /\ IsOctet(v.flags)
DecAuthenContinue(b) == IF Len(b) < 5 THEN Bad ELSE
   LET ml == RdU16(b, 1)  dl == RdU16(b, 3) IN
   IF Len(b) # 5 + ml + dl THEN Bad ELSE
   Ok([flags |-> b[5], msg |-> SubSeq(b, 6, 5 + ml), data |-> SubSeq(b, 6 + ml, 5 + ml + dl)])

\* 6.1 authorization REQUEST
\*  authen_method priv_lvl authen_type authen_service user_len port_len rem_addr_len arg_cnt
\*  arg_1_len .. arg_N_len user port rem_addr arg_1 .. arg_N
EncAuthorRequest(v) == << v.method, v.priv, v.atype, v.service,
                          Len(v.user), Len(v.port), Len(v.raddr), Len(v.args) >>
                       \o Lens(v.args) \o v.user \o v.port \o v.raddr \o Flatten(v.args)
ValidAuthorRequest(v) == /\ v.method \in Methods /\ PrivOK(v.priv) /\ v.atype \in ATypes /\ v.service \in Services
                         /\ IsAscii(v.user) /\ IsAscii(v.port) /\ IsAscii(v.raddr)
                         /\ \A i \in 1..Len(v.args) : ArgOK(v.args[i])
FitsAuthorRequest(v) == /\ Len(v.user) <= 255 /\ Len(v.port) <= 255 /\ Len(v.raddr) <= 255
                        /\ Len(v.args) <= 255 /\ \A i \in 1..Len(v.args) : Len(v.args[i]) <= 255
                        /\ IsOctet(v.method) /\ IsOctet(v.priv) /\ IsOctet(v.atype) /\ IsOctet(v.service)
DecAuthorRequest(b) == IF Len(b) < 8 THEN Bad ELSE
   LET n == b[8] IN
   IF Len(b) < 8 + n THEN Bad ELSE
   LET als == SubSeq(b, 9, 8 + n)
       ls == << b[5], b[6], b[7] >> IN
   IF Len(b) # 8 + n + Sum(ls) + Sum(als) THEN Bad ELSE
   LET p == Split(Drop(b, 8 + n), ls \o als) IN
   Ok([method |-> b[1], priv |-> b[2], atype |-> b[3], service |-> b[4],
       user |-> p[1], port |-> p[2], raddr |-> p[3], args |-> SubSeq(p, 4, 3 + n)])

\* 6.2 authorization REPLY
\*  status arg_cnt server_msg_len(2) data_len(2) arg_1_len .. arg_N_len server_msg data arg_1 .. arg_N
EncAuthorReply(v) == << v.status, Len(v.args) >> \o U16(Len(v.msg)) \o U16(Len(v.data))
                     \o Lens(v.args) \o v.msg \o v.data \o Flatten(v.args)
ValidAuthorReply(v) == /\ v.status \in AuthorStatuses /\ IsAscii(v.msg) /\ IsAscii(v.data)
                       /\ \A i \in 1..Len(v.args) : ArgOK(v.args[i])
FitsAuthorReply(v) == /\ Len(v.msg) <= 65535 /\ Len(v.data) <= 65535 /\ Len(v.args) <= 255
                      /\ \A i \in 1..Len(v.args) : Len(v.args[i]) <= 255
                      /\ IsOctet(v.status)
DecAuthorReply(b) == IF Len(b) < 6 THEN Bad ELSE
   LET n == b[2]  ml == RdU16(b, 3)  dl == RdU16(b, 5) IN
   IF Len(b) < 6 + n THEN Bad ELSE
   LET als == SubSeq(b, 7, 6 + n) IN
   IF Len(b) # 6 + n + ml + dl + Sum(als) THEN Bad ELSE
   LET p == Split(Drop(b, 6 + n), << ml, dl >> \o als) IN
   Ok([status |-> b[1], msg |-> p[1], data |-> p[2], args |-> SubSeq(p, 3, 2 + n)])

\* 7.1 accounting REQUEST
\*  flags authen_method priv_lvl authen_type authen_service user_len port_len rem_addr_len arg_cnt
\*  arg_1_len .. arg_N_len user port rem_addr arg_1 .. arg_N
EncAcctRequest(v) == << v.flags, v.method, v.priv, v.atype, v.service,
                        Len(v.user), Len(v.port), Len(v.raddr), Len(v.args) >>
                     \o Lens(v.args) \o v.user \o v.port \o v.raddr \o Flatten(v.args)
StopAndWatchdog(fl) == HasBit(fl, 4) /\ HasBit(fl, 8)
ValidAcctRequest(v) == /\ v.method \in Methods /\ PrivOK(v.priv) /\ v.atype \in ATypes /\ v.service \in Services
                       /\ IsAscii(v.user) /\ IsAscii(v.port) /\ IsAscii(v.raddr)
                       /\ ~StopAndWatchdog(v.flags)
                       /\ \A i \in 1..Len(v.args) : AcctArgOK(v.args[i])
FitsAcctRequest(v) == /\ Len(v.user) <= 255 /\ Len(v.port) <= 255 /\ Len(v.raddr) <= 255
                      /\ Len(v.args) <= 255 /\ \A i \in 1..Len(v.args) : Len(v.args[i]) <= 255
                      /\ IsOctet(v.flags) /\ IsOctet(v.method) /\ IsOctet(v.priv) /\ IsOctet(v.atype) /\ IsOctet(v.service)
DecAcctRequest(b) == IF Len(b) < 9 THEN Bad ELSE
   LET n == b[9] IN
   IF Len(b) < 9 + n THEN Bad ELSE
   LET als == SubSeq(b, 10, 9 + n)
       ls == << b[6], b[7], b[8] >> IN
   IF Len(b) # 9 + n + Sum(ls) + Sum(als) THEN Bad ELSE
   LET p == Split(Drop(b, 9 + n), ls \o als) IN
   Ok([flags |-> b[1], method |-> b[2], priv |-> b[3], atype |-> b[4], service |-> b[5],
       user |-> p[1], port |-> p[2], raddr |-> p[3], args |-> SubSeq(p, 4, 3 + n)])

\* 7.2 accounting REPLY:  server_msg_len(2) data_len(2) status server_msg data
EncAcctReply(v) == U16(Len(v.msg)) \o U16(Len(v.data)) \o << v.status >> \o v.msg \o v.data
ValidAcctReply(v) == v.status \in AcctStatuses /\ IsAscii(v.msg) /\ IsAscii(v.data)
FitsAcctReply(v) == Len(v.msg) <= 65535 /\ Len(v.data) <= 65535 /\ IsOctet(v.status)
DecAcctReply(b) == IF Len(b) < 5 THEN Bad ELSE
   LET ml == RdU16(b, 1)  dl == RdU16(b, 3) IN
   IF Len(b) # 5 + ml + dl THEN Bad ELSE
   Ok([status |-> b[5], msg |-> SubSeq(b, 6, 5 + ml), data |-> SubSeq(b, 6 + ml, 5 + ml + dl)])

----------------------------------------------------------------------------
\* dispatch by kind name (the names used in traces and vectors)
Kinds == {"Header", "AuthenStart", "AuthenReply", "AuthenContinue",
          "AuthorRequest", "AuthorReply", "AcctRequest", "AcctReply"}
Enc(k, v) == CASE k = "Header" -> EncHeader(v)
               [] k = "AuthenStart" -> EncAuthenStart(v)
               [] k = "AuthenReply" -> EncAuthenReply(v)
               [] k = "AuthenContinue" -> EncAuthenContinue(v)
               [] k = "AuthorRequest" -> EncAuthorRequest(v)
               [] k = "AuthorReply" -> EncAuthorReply(v)
               [] k = "AcctRequest" -> EncAcctRequest(v)
               [] k = "AcctReply" -> EncAcctReply(v)
Dec(k, b) == CASE k = "Header" -> DecHeader(b)
               [] k = "AuthenStart" -> DecAuthenStart(b)
               [] k = "AuthenReply" -> DecAuthenReply(b)
               [] k = "AuthenContinue" -> DecAuthenContinue(b)
               [] k = "AuthorRequest" -> DecAuthorRequest(b)
               [] k = "AuthorReply" -> DecAuthorReply(b)
               [] k = "AcctRequest" -> DecAcctRequest(b)
               [] k = "AcctReply" -> DecAcctReply(b)
Valid(k, v) == CASE k = "Header" -> ValidHeader(v)
               [] k = "AuthenStart" -> ValidAuthenStart(v)
               [] k = "AuthenReply" -> ValidAuthenReply(v)
               [] k = "AuthenContinue" -> ValidAuthenContinue(v)
               [] k = "AuthorRequest" -> ValidAuthorRequest(v)
               [] k = "AuthorReply" -> ValidAuthorReply(v)
               [] k = "AcctRequest" -> ValidAcctRequest(v)
               [] k = "AcctReply" -> ValidAcctReply(v)
Fits(k, v) == CASE k = "Header" -> FitsHeader(v)
               [] k = "AuthenStart" -> FitsAuthenStart(v)
               [] k = "AuthenReply" -> FitsAuthenReply(v)
               [] k = "AuthenContinue" -> FitsAuthenContinue(v)
               [] k = "AuthorRequest" -> FitsAuthorRequest(v)
               [] k = "AuthorReply" -> FitsAuthorReply(v)
               [] k = "AcctRequest" -> FitsAcctRequest(v)
               [] k = "AcctReply" -> FitsAcctReply(v)

\* body kinds that can travel under each header type
BodyKinds(ty) == CASE ty = 1 -> <<"AuthenStart", "AuthenContinue", "AuthenReply">>
                   [] ty = 2 -> <<"AuthorRequest", "AuthorReply">>
                   [] ty = 3 -> <<"AcctRequest", "AcctReply">>
                   [] OTHER -> <<>>
ReplyKind(ty) == CASE ty = 1 -> "AuthenReply" [] ty = 2 -> "AuthorReply" [] ty = 3 -> "AcctReply"

----------------------------------------------------------------------------
(* C19: the length-consistency rule, stated independently of any decoder.          *)
(* For one layout: the body is long enough to hold the layout's fixed part and all *)
(* its length octets, and the lengths it declares exceed the octets that follow.   *)
(* (A body in which the declared lengths are fully available but octets are left   *)
(* over is not "inconsistent" in this sense and carries no obligation.)            *)
FixedLen(k) == CASE k = "AuthenStart" -> 8 [] k = "AuthenReply" -> 6 [] k = "AuthenContinue" -> 5
                 [] k = "AuthorRequest" -> 8 [] k = "AuthorReply" -> 6 [] k = "AcctRequest" -> 9 [] k = "AcctReply" -> 5
ArgCntAt(k) == CASE k = "AuthorRequest" -> 8 [] k = "AuthorReply" -> 2 [] k = "AcctRequest" -> 9 [] OTHER -> 0
\* number of octets the layout says must follow its length fields, or -1 when b is too short to say
Declared(k, b) ==
   IF Len(b) < FixedLen(k) THEN -1 ELSE
   LET n == IF ArgCntAt(k) = 0 THEN 0 ELSE b[ArgCntAt(k)] IN
   IF Len(b) < FixedLen(k) + n THEN -1 ELSE
   LET als == Sum(SubSeq(b, FixedLen(k) + 1, FixedLen(k) + n)) IN
   CASE k = "AuthenStart"    -> b[5] + b[6] + b[7] + b[8]
     [] k = "AuthenReply"    -> RdU16(b, 3) + RdU16(b, 5)
     [] k = "AuthenContinue" -> RdU16(b, 1) + RdU16(b, 3)
     [] k = "AuthorRequest"  -> b[5] + b[6] + b[7] + als
     [] k = "AuthorReply"    -> RdU16(b, 3) + RdU16(b, 5) + als
     [] k = "AcctRequest"    -> b[6] + b[7] + b[8] + als
     [] k = "AcctReply"      -> RdU16(b, 1) + RdU16(b, 3)
Available(k, b) == LET n == IF ArgCntAt(k) = 0 THEN 0 ELSE b[ArgCntAt(k)] IN Len(b) - FixedLen(k) - n
LayoutOverruns(k, b) == Declared(k, b) >= 0 /\ Declared(k, b) > Available(k, b)
LayoutDeterminate(k, b) == Declared(k, b) >= 0
\* class M of C19: every layout of the packet type overruns
LenMismatch(ty, b) == LET ks == BodyKinds(ty) IN
   Len(ks) > 0 /\ \A i \in 1..Len(ks) : LayoutOverruns(ks[i], b)
\* a body for which the rule cannot be evaluated for some layout (too short to hold the
\* layout's length fields): carries no C19 obligation
LenRuleDeterminate(ty, b) == LET ks == BodyKinds(ty) IN \A i \in 1..Len(ks) : LayoutDeterminate(ks[i], b)
\* class W: well-formed request of the packet type
WellFormedRequest(ty, b) ==
   CASE ty = 1 -> \/ (DecAuthenStart(b).ok /\ ValidAuthenStart(DecAuthenStart(b).v))
                  \/ (DecAuthenContinue(b).ok /\ ValidAuthenContinue(DecAuthenContinue(b).v))
     [] ty = 2 -> DecAuthorRequest(b).ok /\ ValidAuthorRequest(DecAuthorRequest(b).v)
     [] ty = 3 -> DecAcctRequest(b).ok /\ ValidAcctRequest(DecAcctRequest(b).v)
     [] OTHER -> FALSE

----------------------------------------------------------------------------
(* Implementation-shaped decoders: packet.go readBuffer semantics (missing octets   *)
(* read as 0 / empty, strings clamped to what is left), then the "sum of decoded    *)
(* lengths = sum of declared lengths" test, then the type's validation.             *)
(* Result: [cls |-> "short" | "badsecret" | "invalid" | "ok", v |-> value]          *)
RbByte(buf)   == IF Len(buf) < 1 THEN [x |-> 0, r |-> buf] ELSE [x |-> buf[1], r |-> Drop(buf, 1)]
RbU16(buf)    == IF Len(buf) = 0 THEN [x |-> 0, r |-> buf]
                 ELSE IF Len(buf) = 1 THEN [x |-> buf[1], r |-> <<>>]
                 ELSE [x |-> buf[1] * 256 + buf[2], r |-> Drop(buf, 2)]
RbStr(buf, n) == LET m == MinOf(n, Len(buf)) IN [x |-> Take(buf, m), r |-> Drop(buf, m)]
RECURSIVE RbBytes(_,_,_)
\* pop n single octets (0 when exhausted); returns [xs, r]
RbBytes(buf, n, acc) == IF n = 0 THEN [xs |-> acc, r |-> buf]
                        ELSE LET q == RbByte(buf) IN RbBytes(q.r, n - 1, Append(acc, q.x))
RECURSIVE RbStrs(_,_,_,_)
RbStrs(buf, lens, k, acc) == IF k > Len(lens) THEN [xs |-> acc, r |-> buf]
                             ELSE LET q == RbStr(buf, lens[k]) IN RbStrs(q.r, lens, k + 1, Append(acc, q.x))
Cls(c, v) == [cls |-> c, v |-> v]
NoVal == <<>>

ImplAuthenStart(b) == IF Len(b) < 8 THEN Cls("short", NoVal) ELSE
   LET ls == RbBytes(Drop(b, 4), 4, <<>>)
       ss == RbStrs(ls.r, ls.xs, 1, <<>>)
       v == [action |-> b[1], priv |-> b[2], atype |-> b[3], service |-> b[4],
             user |-> ss.xs[1], port |-> ss.xs[2], raddr |-> ss.xs[3], data |-> ss.xs[4]] IN
   IF Sum(Lens(ss.xs)) # Sum(ls.xs) THEN Cls("badsecret", NoVal)
   ELSE IF ~ValidAuthenStart(v) THEN Cls("invalid", NoVal) ELSE Cls("ok", v)

ImplAuthenReply(b) == IF Len(b) < 5 THEN Cls("short", NoVal) ELSE
   LET a == RbU16(Drop(b, 2))  d == RbU16(a.r)
       ss == RbStrs(d.r, << a.x, d.x >>, 1, <<>>)
       v == [status |-> b[1], flags |-> b[2], msg |-> ss.xs[1], data |-> ss.xs[2]] IN
   IF Sum(Lens(ss.xs)) # a.x + d.x THEN Cls("badsecret", NoVal)
   ELSE IF ~ValidAuthenReply(v) THEN Cls("invalid", NoVal) ELSE Cls("ok", v)

ImplAuthenContinue(b) == IF Len(b) < 5 THEN Cls("short", NoVal) ELSE
   LET a == RbU16(b)  d == RbU16(a.r)  f == RbByte(d.r)
       ss == RbStrs(f.r, << a.x, d.x >>, 1, <<>>)
       v == [flags |-> f.x, msg |-> ss.xs[1], data |-> ss.xs[2]] IN
   IF Sum(Lens(ss.xs)) # a.x + d.x THEN Cls("badsecret", NoVal)
   ELSE IF ~ValidAuthenContinue(v) THEN Cls("invalid", NoVal) ELSE Cls("ok", v)

ImplAuthorRequest(b) == IF Len(b) < 8 THEN Cls("short", NoVal) ELSE
   LET ls == RbBytes(Drop(b, 4), 4, <<>>)
       n == ls.xs[4]
       als == RbBytes(ls.r, n, <<>>)
       ss == RbStrs(als.r, SubSeq(ls.xs, 1, 3) \o als.xs, 1, <<>>)
       v == [method |-> b[1], priv |-> b[2], atype |-> b[3], service |-> b[4],
             user |-> ss.xs[1], port |-> ss.xs[2], raddr |-> ss.xs[3], args |-> SubSeq(ss.xs, 4, 3 + n)] IN
   IF Sum(Lens(ss.xs)) # ls.xs[1] + ls.xs[2] + ls.xs[3] + Sum(als.xs) THEN Cls("badsecret", NoVal)
   ELSE IF ~ValidAuthorRequest(v) THEN Cls("invalid", NoVal) ELSE Cls("ok", v)

ImplAuthorReply(b) == IF Len(b) < 6 THEN Cls("short", NoVal) ELSE
   LET s == RbByte(b)  c == RbByte(s.r)  a == RbU16(c.r)  d == RbU16(a.r)
       n == c.x
       als == RbBytes(d.r, n, <<>>)
       ss == RbStrs(als.r, << a.x, d.x >> \o als.xs, 1, <<>>)
       v == [status |-> s.x, msg |-> ss.xs[1], data |-> ss.xs[2], args |-> SubSeq(ss.xs, 3, 2 + n)] IN
   IF Sum(Lens(ss.xs)) # a.x + d.x + Sum(als.xs) THEN Cls("badsecret", NoVal)
   ELSE IF ~ValidAuthorReply(v) THEN Cls("invalid", NoVal) ELSE Cls("ok", v)

ImplAcctRequest(b) == IF Len(b) < 9 THEN Cls("short", NoVal) ELSE
   LET n == b[9]
       als == RbBytes(Drop(b, 9), n, <<>>)
       ss == RbStrs(als.r, << b[6], b[7], b[8] >> \o als.xs, 1, <<>>)
       v == [flags |-> b[1], method |-> b[2], priv |-> b[3], atype |-> b[4], service |-> b[5],
             user |-> ss.xs[1], port |-> ss.xs[2], raddr |-> ss.xs[3], args |-> SubSeq(ss.xs, 4, 3 + n)] IN
   IF Sum(Lens(ss.xs)) # b[6] + b[7] + b[8] + Sum(als.xs) THEN Cls("badsecret", NoVal)
   ELSE IF ~ValidAcctRequest(v) THEN Cls("invalid", NoVal) ELSE Cls("ok", v)

ImplAcctReply(b) == IF Len(b) < 5 THEN Cls("short", NoVal) ELSE
   LET a == RbU16(b)  d == RbU16(a.r)  s == RbByte(d.r)
       ss == RbStrs(s.r, << a.x, d.x >>, 1, <<>>)
       v == [status |-> s.x, msg |-> ss.xs[1], data |-> ss.xs[2]] IN
   IF Sum(Lens(ss.xs)) # a.x + d.x THEN Cls("badsecret", NoVal)
   ELSE IF ~ValidAcctReply(v) THEN Cls("invalid", NoVal) ELSE Cls("ok", v)

Impl(k, b) == CASE k = "AuthenStart" -> ImplAuthenStart(b)
                [] k = "AuthenReply" -> ImplAuthenReply(b)
                [] k = "AuthenContinue" -> ImplAuthenContinue(b)
                [] k = "AuthorRequest" -> ImplAuthorRequest(b)
                [] k = "AuthorReply" -> ImplAuthorReply(b)
                [] k = "AcctRequest" -> ImplAcctRequest(b)
                [] k = "AcctReply" -> ImplAcctReply(b)

\* crypt.go detectBadSecret: every layout of the type reports the bad-secret class
ImplBadSecret(ty, b) == LET ks == BodyKinds(ty) IN
   Len(ks) > 0 /\ \A i \in 1..Len(ks) : Impl(ks[i], b).cls = "badsecret"

\* every variable field of a decoded value lies inside the input (C04)
FieldsWithin(k, v, b) ==
   LET flds == CASE k = "AuthenStart" -> << v.user, v.port, v.raddr, v.data >>
                 [] k = "AuthenReply" -> << v.msg, v.data >>
                 [] k = "AuthenContinue" -> << v.msg, v.data >>
                 [] k = "AuthorRequest" -> << v.user, v.port, v.raddr >> \o v.args
                 [] k = "AuthorReply" -> << v.msg, v.data >> \o v.args
                 [] k = "AcctRequest" -> << v.user, v.port, v.raddr >> \o v.args
                 [] k = "AcctReply" -> << v.msg, v.data >>
   IN Sum(Lens(flds)) <= Len(b)
=============================================================================
