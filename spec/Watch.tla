-------------------------------- MODULE Watch --------------------------------
(* The configuration file watched in place (cmds/server/loader/fsnotify watch(),       *)
(* loader.NewLocalConfig): the file is rewritten by the operator at any time; every     *)
(* write event of the file itself counts as pending; a one-second ticker loads the      *)
(* file once if anything is pending (several writes between two ticks are one load of   *)
(* the LATEST content); events of other files of the directory only re-arm the ticker.  *)
(* Load is Reload!Load: a good document is published (and installed by the update loop  *)
(* of Reload.tla), a bad one changes nothing.                                           *)
EXTENDS Reload

VARIABLES file,       \* the document currently in the file
          pending     \* write events of the file since the last load
wvars == << vars, file, pending >>

WInit == Init /\ file \in { d \in Docs : Good(d) } /\ pending = 1       \* NewLocalConfig loads the file first (modelled as a pending load)
Rewrite(d) == /\ Len(hist) + pending < MaxLoads
              /\ file' = d /\ pending' = pending + 1 /\ UNCHANGED vars
OtherFile == UNCHANGED wvars                                              \* ticker re-armed: no state of ours changes
Tick == /\ pending > 0 /\ Load(file) /\ pending' = 0 /\ UNCHANGED file
WNext == (\E d \in Docs : Rewrite(d)) \/ Tick \/ (Install /\ UNCHANGED << file, pending >>)
WSpec == WInit /\ [][WNext]_wvars /\ WF_wvars(Tick) /\ WF_wvars(Install /\ UNCHANGED << file, pending >>)

\* what the operator wrote last, once the watcher and the update loop have caught up: in force if it is good,
\* otherwise the last good content that was ever loaded stays in force
CaughtUp == pending = 0 /\ chan = <<>>
WatchedEqualsFresh == (CaughtUp /\ Good(file)) => inforce = Fresh(file)
BadFileKeepsLastGood == (CaughtUp /\ ~Good(file)) => inforce = LastGood
EventuallyCaughtUp == []<>(CaughtUp \/ Len(hist) + pending >= MaxLoads)
=============================================================================
