-------------------------------- MODULE Authz --------------------------------
(* Authorization policy of the reference server, stated from the property / README:  *)
(* command authorization = first applying rule decides (user rules before group      *)
(* rules, configured order; a rule applies if it is the wildcard, or its name equals *)
(* the command and - when it has patterns - one pattern matches the ENTIRE argument  *)
(* string), default deny; session authorization = exactly the configured values of   *)
(* the services whose name and match conditions are satisfied by the request's       *)
(* arguments and the connection's scope, add/replace by optionality, FAIL when none. *)
(* Patterns are regular-expression ASTs (Regex.tla); the configuration carries the   *)
(* AST next to the pattern text it was rendered to.                                  *)
EXTENDS Integers, Sequences, FiniteSets, Regex, Wire, Msgs

\* ---- octet-string helpers ---------------------------------------------------
IsSpace(c) == c \in {9, 10, 11, 12, 13, 32}
RECURSIVE TrimL(_)
TrimL(s) == IF s # <<>> /\ IsSpace(s[1]) THEN TrimL(Tail(s)) ELSE s
RECURSIVE TrimR(_)
TrimR(s) == IF s # <<>> /\ IsSpace(s[Len(s)]) THEN TrimR(SubSeq(s, 1, Len(s) - 1)) ELSE s
Trim(s) == TrimR(TrimL(s))
Lower(c) == IF c >= 65 /\ c <= 90 THEN c + 32 ELSE c
LowerS(s) == [i \in 1..Len(s) |-> Lower(s[i])]
\* attribute, separator, value of an argument ("=" is 61, "*" is 42); no separator => all empty
SepPos(s) == LET ps == { i \in 1..Len(s) : s[i] \in {61, 42} } IN IF ps = {} THEN 0 ELSE CHOOSE i \in ps : \A j \in ps : i <= j
ASV(arg) == LET s == Trim(arg)  p == SepPos(s) IN
   IF p = 0 THEN [a |-> <<>>, sep |-> 0, v |-> <<>>] ELSE [a |-> SubSeq(s, 1, p - 1), sep |-> s[p], v |-> SubSeq(s, p + 1, Len(s))]
RECURSIVE JoinSp(_,_)
JoinSp(xs, k) == IF k > Len(xs) THEN <<>> ELSE IF k = Len(xs) THEN xs[k] ELSE xs[k] \o << 32 >> \o JoinSp(xs, k + 1)
RECURSIVE UniqueFrom(_,_,_)
UniqueFrom(xs, k, acc) == IF k > Len(xs) THEN acc
                          ELSE IF \E j \in 1..Len(acc) : acc[j] = xs[k] THEN UniqueFrom(xs, k + 1, acc) ELSE UniqueFrom(xs, k + 1, Append(acc, xs[k]))
Unique(xs) == UniqueFrom(xs, 1, <<>>)
RECURSIVE ConcatAll(_,_)
ConcatAll(xss, k) == IF k > Len(xss) THEN <<>> ELSE xss[k] \o ConcatAll(xss, k + 1)
FirstWith(args, attr) == LET is == { i \in 1..Len(args) : ASV(args[i]).a = attr } IN IF is = {} THEN 0 ELSE CHOOSE i \in is : \A j \in is : i <= j

\* ---- the request -------------------------------------------------------------
ServiceOf(args) == LET i == FirstWith(args, SService) IN IF i = 0 THEN <<>> ELSE ASV(args[i]).v
IsCommandRequest(args) == /\ ServiceOf(args) = SShell
                          /\ LET i == FirstWith(args, SCmd) IN i > 0 /\ ASV(args[i]).sep = 61 /\ ASV(args[i]).v # <<>>
CommandOf(args) == ASV(args[FirstWith(args, SCmd)]).v
\* values of the cmd-arg arguments in request order, a <cr> dropped when it is the last argument of the request
CmdArgValues(args) == LET idx == { i \in 1..Len(args) : ASV(args[i]).a = SCmdArg /\ ~(i = Len(args) /\ LowerS(ASV(args[i]).v) = SCr) }
                      IN [k \in 1..Cardinality(idx) |-> ASV(args[CHOOSE i \in idx : Cardinality({ j \in idx : j < i }) = k - 1]).v]
ArgString(args) == JoinSp(CmdArgValues(args), 1)
\* a <cr> that is the last cmd-arg but not the last argument: the property text leaves this case open
CrAmbiguous(args) == \E i \in 1..Len(args) : i < Len(args) /\ ASV(args[i]).a = SCmdArg /\ LowerS(ASV(args[i]).v) = SCr

\* ---- policy of a user (own rules, then the groups' in order) -------------------
AllCommands(u) == u.commands \o ConcatAll([i \in 1..Len(u.groups) |-> u.groups[i].commands], 1)
AllServices(u) == u.services \o ConcatAll([i \in 1..Len(u.groups) |-> u.groups[i].services], 1)

RuleApplies(rule, cmd, argstr) ==
   LET name == Trim(rule.name) IN
   \/ name = SStar
   \/ /\ name = cmd
      /\ \/ Len(rule.match) = 0
         \/ \E i \in 1..Len(rule.match) : Trim(rule.match[i].s) # <<>> /\ Whole(rule.match[i].ast, argstr)
\* PERMIT = 2, DENY = 1 ; no applying rule => deny
CmdPermit(u, cmd, argstr) ==
   LET rules == AllCommands(u)
       ap == { i \in 1..Len(rules) : RuleApplies(rules[i], cmd, argstr) }
   IN ap # {} /\ rules[CHOOSE i \in ap : \A j \in ap : i <= j].action = 2

\* ---- session authorization -----------------------------------------------------
RenderValue(v) == v.name \o << IF v.opt THEN 42 ELSE 61 >> \o JoinSp(v.values, 1)
\* attribute -> value of the request (the last occurrence wins; the connection's scope is appended last)
KV(args, attr) == LET is == { i \in 1..Len(args) : ASV(args[i]).a = attr } IN
   IF is = {} THEN [ok |-> FALSE, v |-> <<>>] ELSE [ok |-> TRUE, v |-> ASV(args[CHOOSE i \in is : \A j \in is : i >= j]).v]
MatchHolds(args, ms) == \A k \in 1..Len(ms) : LET kv == KV(args, ms[k].name) IN kv.ok /\ \A j \in 1..Len(ms[k].values) : kv.v = ms[k].values[j]
Referenced(args, name) == \E i \in 1..Len(args) : ASV(args[i]).a = name \/ ASV(args[i]).v = name
Satisfied(args, s) == Referenced(args, Trim(s.name)) /\ (Len(s.match) = 0 \/ MatchHolds(args, s.match))
SessionArgs(u, args) ==
   LET ss == AllServices(u)
   IN Unique(ConcatAll([k \in 1..Len(ss) |-> IF Satisfied(args, ss[k]) THEN [j \in 1..Len(ss[k].set) |-> RenderValue(ss[k].set[j])] ELSE <<>>], 1))
\* replace (2) when an optional value is returned or a satisfied service was asked for with the * separator (other than cmd*)
StarAsked(args, name) == \E i \in 1..Len(args) : LET x == ASV(args[i]) IN (x.a = name \/ x.v = name) /\ x.a # SCmd /\ x.sep = 42
SessionRepl(u, args) == \E k \in 1..Len(AllServices(u)) : LET s == AllServices(u)[k] IN
   Satisfied(args, s) /\ ((\E j \in 1..Len(s.set) : s.set[j].opt) \/ StarAsked(args, Trim(s.name)))
\* the corner the property text leaves open: a service that is referenced with * but not satisfied
StatusAmbiguous(u, args) == \E k \in 1..Len(AllServices(u)) : LET s == AllServices(u)[k] IN
   ~Satisfied(args, s) /\ StarAsked(args, Trim(s.name))

----------------------------------------------------------------------------
\* verdict on one observed authorization exchange: request body b (decodes), reply value rv.
\* users(cfg, scope) come from Handlers; passed in as u (record) and known (BOOLEAN).
Granted(rv) == rv.status \in {1, 2}
AuthzJudge(known, u, scopeArg, q, rv) ==
   IF ~known THEN Granted(rv)                                     \* unknown user granted
   ELSE LET args == [i \in 1..Len(q.args) |-> Trim(q.args[i])] IN
        IF IsCommandRequest(args)
        THEN /\ ~CrAmbiguous(args)
             /\ Granted(rv) /\ ~CmdPermit(u, CommandOf(args), ArgString(args))      \* soundness: grant without a permitting first rule
        ELSE LET a2 == Unique(Append(args, scopeArg))
                 exp == SessionArgs(u, a2)
             IN \/ (exp = <<>> /\ Granted(rv))
                \/ (exp # <<>> /\ Granted(rv) /\ rv.args # exp)
                \/ (exp # <<>> /\ rv.status = 16 /\ \A i \in 1..Len(exp) : Len(exp[i]) >= 2 /\ Len(exp[i]) <= 255 /\ IsAscii(exp[i]))
                \/ (exp # <<>> /\ Granted(rv) /\ ~StatusAmbiguous(u, a2) /\ rv.status # (IF SessionRepl(u, a2) THEN 2 ELSE 1))
=============================================================================
